// verif-replay: run a *real* function of /repo on concrete inputs (used only to confirm counterexamples).
// usage: verif-replay <label> name=hex ...   (field elements as canonical integers in hex)
extern crate ff_zeroize as ff;
extern crate pairing_plus as pairing;
use ff::{Field, PrimeField, SqrtField};
use pairing::bls12_381::*;
use std::collections::HashMap;

fn fq_from_hex(h: &str) -> Fq {
    let h = h.trim_start_matches("0x");
    let mut limbs = [0u64; 6];
    let padded = format!("{:0>96}", h);
    for i in 0..6 {
        limbs[5 - i] = u64::from_str_radix(&padded[16 * i..16 * (i + 1)], 16).unwrap();
    }
    Fq::from_repr(FqRepr(limbs)).expect("not reduced")
}
fn fq_hex(x: &Fq) -> String {
    let r = x.into_repr();
    let mut s = String::from("0x");
    for i in (0..6).rev() { s.push_str(&format!("{:016x}", r.0[i])); }
    s
}
struct Env(HashMap<String, String>);
impl Env {
    fn fq(&self, n: &str) -> Fq { fq_from_hex(self.0.get(n).map(|s| s.as_str()).unwrap_or("0")) }
    fn fq2(&self, n: &str) -> Fq2 { Fq2 { c0: self.fq(&format!("{}__c0", n)), c1: self.fq(&format!("{}__c1", n)) } }
    fn fq6(&self, n: &str) -> Fq6 { Fq6 { c0: self.fq2(&format!("{}__c0", n)), c1: self.fq2(&format!("{}__c1", n)), c2: self.fq2(&format!("{}__c2", n)) } }
    fn fq12(&self, n: &str) -> Fq12 { Fq12 { c0: self.fq6(&format!("{}__c0", n)), c1: self.fq6(&format!("{}__c1", n)) } }
}
fn o2(x: &Fq2, out: &mut Vec<String>) { out.push(fq_hex(&x.c0)); out.push(fq_hex(&x.c1)); }
fn o6(x: &Fq6, out: &mut Vec<String>) { o2(&x.c0, out); o2(&x.c1, out); o2(&x.c2, out); }
fn o12(x: &Fq12, out: &mut Vec<String>) { o6(&x.c0, out); o6(&x.c1, out); }

fn main() {
    let args: Vec<String> = std::env::args().collect();
    let label = args[1].clone();
    let mut m = HashMap::new();
    for a in &args[2..] { let mut it = a.splitn(2, '='); m.insert(it.next().unwrap().to_string(), it.next().unwrap().to_string()); }
    let e = Env(m);
    let mut out: Vec<String> = vec![];
    let mut tag = String::new();
    match label.as_str() {
        "Fq2_mul_assign" => { let mut s = e.fq2("self"); s.mul_assign(&e.fq2("other")); o2(&s, &mut out); }
        "Fq2_square" => { let mut s = e.fq2("self"); s.square(); o2(&s, &mut out); }
        "Fq2_mul_by_nonresidue" => { let mut s = e.fq2("self"); s.mul_by_nonresidue(); o2(&s, &mut out); }
        "Fq2_norm" => { let s = e.fq2("self"); out.push(fq_hex(&s.norm())); }
        "Fq2_inverse" => { match e.fq2("self").inverse() { Some(y) => { tag = "some".into(); o2(&y, &mut out) } None => tag = "none".into() } }
        "Fq6_mul_assign" => { let mut s = e.fq6("self"); s.mul_assign(&e.fq6("other")); o6(&s, &mut out); }
        "Fq6_square" => { let mut s = e.fq6("self"); s.square(); o6(&s, &mut out); }
        "Fq6_mul_by_nonresidue" => { let mut s = e.fq6("self"); s.mul_by_nonresidue(); o6(&s, &mut out); }
        "Fq6_mul_by_1" => { let mut s = e.fq6("self"); s.mul_by_1(&e.fq2("c1")); o6(&s, &mut out); }
        "Fq6_mul_by_01" => { let mut s = e.fq6("self"); s.mul_by_01(&e.fq2("c0"), &e.fq2("c1")); o6(&s, &mut out); }
        "Fq6_inverse" => { match e.fq6("self").inverse() { Some(y) => { tag = "some".into(); o6(&y, &mut out) } None => tag = "none".into() } }
        "Fq12_mul_assign" => { let mut s = e.fq12("self"); s.mul_assign(&e.fq12("other")); o12(&s, &mut out); }
        "Fq12_square" => { let mut s = e.fq12("self"); s.square(); o12(&s, &mut out); }
        "Fq12_mul_by_014" => { let mut s = e.fq12("self"); s.mul_by_014(&e.fq2("c0"), &e.fq2("c1"), &e.fq2("c4")); o12(&s, &mut out); }
        "Fq12_inverse" => { match e.fq12("self").inverse() { Some(y) => { tag = "some".into(); o12(&y, &mut out) } None => tag = "none".into() } }
        _ => { println!("{{\"error\":\"unknown label\"}}"); return; }
    }
    println!("{{\"tag\":\"{}\",\"out\":[{}]}}", tag, out.iter().map(|s| format!("\"{}\"", s)).collect::<Vec<_>>().join(","));
}
