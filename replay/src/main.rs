// verif-replay: run a *real* function of /repo on concrete inputs (used only to confirm counterexamples).
// usage: verif-replay <label> name=hex ...   (field elements as canonical integers in hex)
extern crate ff_zeroize as ff;
extern crate pairing_plus as pairing;
extern crate digest;
extern crate sha2;
extern crate sha3;
use ff::{Field, PrimeField, PrimeFieldRepr, SqrtField};
use pairing::bls12_381::*;
use pairing::hash_to_curve::HashToCurve;
use pairing::map_to_curve::MapToCurve;
use pairing::hash_to_field::{hash_to_field, BaseFromRO, ExpandMsg, ExpandMsgXmd, ExpandMsgXof, FromRO};
use pairing::serdes::SerDes;
use pairing::signum::{Sgn0Result, Signum0};
use pairing::{CurveAffine, CurveProjective, EncodedPoint, Engine, GroupDecodingError, SubgroupCheck};
use digest::generic_array::GenericArray;
use std::collections::HashMap;

fn fq_from_hex(h: &str) -> Fq {
    let h = h.trim_start_matches("0x");
    let mut limbs = [0u64; 6];
    let padded = format!("{:0>96}", h);
    for i in 0..6 {
        limbs[5 - i] = u64::from_str_radix(&padded[16 * i..16 * (i + 1)], 16).unwrap();
    }
    Fq::from_repr(FqRepr(limbs)).expect("not reduced")
}
fn fq_hex(x: &Fq) -> String {
    let r = x.into_repr();
    let mut s = String::from("0x");
    for i in (0..6).rev() { s.push_str(&format!("{:016x}", r.0[i])); }
    s
}
struct Env(HashMap<String, String>);
impl Env {
    fn fq(&self, n: &str) -> Fq { fq_from_hex(self.0.get(n).map(|s| s.as_str()).unwrap_or("0")) }
    fn fq2(&self, n: &str) -> Fq2 { Fq2 { c0: self.fq(&format!("{}__c0", n)), c1: self.fq(&format!("{}__c1", n)) } }
    fn fq6(&self, n: &str) -> Fq6 { Fq6 { c0: self.fq2(&format!("{}__c0", n)), c1: self.fq2(&format!("{}__c1", n)), c2: self.fq2(&format!("{}__c2", n)) } }
    fn fq12(&self, n: &str) -> Fq12 { Fq12 { c0: self.fq6(&format!("{}__c0", n)), c1: self.fq6(&format!("{}__c1", n)) } }
}
fn o2(x: &Fq2, out: &mut Vec<String>) { out.push(fq_hex(&x.c0)); out.push(fq_hex(&x.c1)); }
fn o6(x: &Fq6, out: &mut Vec<String>) { o2(&x.c0, out); o2(&x.c1, out); o2(&x.c2, out); }
fn o12(x: &Fq12, out: &mut Vec<String>) { o6(&x.c0, out); o6(&x.c1, out); }

fn hex_bytes(h: &str) -> Vec<u8> { let h = h.trim_start_matches("0x"); (0..h.len() / 2).map(|i| u8::from_str_radix(&h[2 * i..2 * i + 2], 16).unwrap()).collect() }
fn bytes_hex(b: &[u8]) -> String { b.iter().map(|x| format!("{:02x}", x)).collect() }
fn err_kind(e: &GroupDecodingError) -> &'static str {
    match e { GroupDecodingError::NotOnCurve => "NotOnCurve", GroupDecodingError::NotInSubgroup => "NotInSubgroup", GroupDecodingError::CoordinateDecodingError(_, _) => "Coord",
              GroupDecodingError::UnexpectedCompressionMode => "Mode", GroupDecodingError::UnexpectedInformation => "Info" }
}
fn fr_repr(h: &str) -> FrRepr { let h = format!("{:0>64}", h.trim_start_matches("0x")); let mut l = [0u64; 4]; for i in 0..4 { l[3 - i] = u64::from_str_radix(&h[16 * i..16 * (i + 1)], 16).unwrap(); } FrRepr(l) }
impl Env {
    fn g1(&self, n: &str) -> G1 { unsafe { transmute::g1_projective(self.fq(&format!("{}__x", n)), self.fq(&format!("{}__y", n)), self.fq(&format!("{}__z", n))) } }
    fn g2(&self, n: &str) -> G2 { unsafe { transmute::g2_projective(self.fq2(&format!("{}__x", n)), self.fq2(&format!("{}__y", n)), self.fq2(&format!("{}__z", n))) } }
    fn s(&self, n: &str) -> String { self.0.get(n).cloned().unwrap_or_default() }
}
fn out_g1(p: &G1, out: &mut Vec<String>) { let a = p.into_affine(); if a.is_zero() { out.push("inf".into()); } else { let (x, y) = a.as_tuple(); out.push(fq_hex(x)); out.push(fq_hex(y)); } }
fn out_g2(p: &G2, out: &mut Vec<String>) { let a = p.into_affine(); if a.is_zero() { out.push("inf".into()); } else { let (x, y) = a.as_tuple(); o2(x, out); o2(y, out); } }
fn out_a1(a: &G1Affine, out: &mut Vec<String>) { if a.is_zero() { out.push("inf".into()); } else { let (x, y) = a.as_tuple(); out.push(fq_hex(x)); out.push(fq_hex(y)); } }
fn out_a2(a: &G2Affine, out: &mut Vec<String>) { if a.is_zero() { out.push("inf".into()); } else { let (x, y) = a.as_tuple(); o2(x, out); o2(y, out); } }

// stand-in `prime_field_api` (C08): every operation through method-call syntax on the concrete types, as the crate's callers write it
macro_rules! prime_field_api { ($F:ty, $R:ident, $n:expr, $e:expr, $out:expr, $tag:expr) => {{
    let limbs = |h: &str| -> [u64; $n] { let h = format!("{:0>w$}", h.trim_start_matches("0x"), w = 16 * $n); let mut l = [0u64; $n]; for i in 0..$n { l[$n - 1 - i] = u64::from_str_radix(&h[16 * i..16 * (i + 1)], 16).unwrap(); } l };
    let hex = |r: &$R| -> String { let mut s = String::from("0x"); for i in (0..$n).rev() { s.push_str(&format!("{:016x}", r.0[i])); } s };
    let ra = $R(limbs(&$e.s("a"))); let rb = $R(limbs(&$e.s("b")));
    let exp: Vec<u64> = $e.s("exp").split(',').filter(|s| !s.is_empty()).map(|s| u64::from_str_radix(s.trim_start_matches("0x"), 16).unwrap()).collect();
    // representation type
    let mut r2 = ra; r2.div2(); let mut r3 = ra; r3.shr(67); let mut r4 = ra; r4.mul2(); let mut r5 = ra; r5.shl(67);
    $tag = format!("{}|{}|{}|{:?}|{}|{}", ra.is_zero(), ra.is_odd(), ra.num_bits(), ra.cmp(&rb), ra == rb, ra < rb);
    $out.push(hex(&r2)); $out.push(hex(&r3)); $out.push(hex(&r4)); $out.push(hex(&r5));
    match (<$F>::from_repr(ra), <$F>::from_repr(rb)) {
        (Ok(a), Ok(b)) => {
            $tag.push_str(&format!("|ok|{}|{:?}|{}", a.is_zero(), a.cmp(&b), a == b));
            let mut x = a; x.add_assign(&b); $out.push(hex(&x.into_repr()));
            let mut x = a; x.sub_assign(&b); $out.push(hex(&x.into_repr()));
            let mut x = a; x.mul_assign(&b); $out.push(hex(&x.into_repr()));
            let mut x = a; x.square(); $out.push(hex(&x.into_repr()));
            let mut x = a; x.negate(); $out.push(hex(&x.into_repr()));
            let mut x = a; x.double(); $out.push(hex(&x.into_repr()));
            match a.inverse() { Some(y) => $out.push(hex(&y.into_repr())), None => $out.push("none".into()) }
            $out.push(hex(&a.pow(&exp).into_repr()));
            $out.push(hex(&a.pow(exp.clone()).into_repr()));
        }
        (x, y) => { $tag.push_str(&format!("|err|{}|{}", x.is_ok(), y.is_ok())); }
    }
}}}

fn main() {
    let args: Vec<String> = std::env::args().collect();
    let label = args[1].clone();
    let mut m = HashMap::new();
    for a in &args[2..] { let mut it = a.splitn(2, '='); m.insert(it.next().unwrap().to_string(), it.next().unwrap().to_string()); }
    let e = Env(m);
    let mut out: Vec<String> = vec![];
    let mut tag = String::new();
    match label.as_str() {
        "Fq2_mul_assign" => { let mut s = e.fq2("self"); s.mul_assign(&e.fq2("other")); o2(&s, &mut out); }
        "Fq2_square" => { let mut s = e.fq2("self"); s.square(); o2(&s, &mut out); }
        "Fq2_mul_by_nonresidue" => { let mut s = e.fq2("self"); s.mul_by_nonresidue(); o2(&s, &mut out); }
        "Fq2_norm" => { let s = e.fq2("self"); out.push(fq_hex(&s.norm())); }
        "Fq2_inverse" => { match e.fq2("self").inverse() { Some(y) => { tag = "some".into(); o2(&y, &mut out) } None => tag = "none".into() } }
        "Fq6_mul_assign" => { let mut s = e.fq6("self"); s.mul_assign(&e.fq6("other")); o6(&s, &mut out); }
        "Fq6_square" => { let mut s = e.fq6("self"); s.square(); o6(&s, &mut out); }
        "Fq6_mul_by_nonresidue" => { let mut s = e.fq6("self"); s.mul_by_nonresidue(); o6(&s, &mut out); }
        "Fq6_mul_by_1" => { let mut s = e.fq6("self"); s.mul_by_1(&e.fq2("c1")); o6(&s, &mut out); }
        "Fq6_mul_by_01" => { let mut s = e.fq6("self"); s.mul_by_01(&e.fq2("c0"), &e.fq2("c1")); o6(&s, &mut out); }
        "Fq6_inverse" => { match e.fq6("self").inverse() { Some(y) => { tag = "some".into(); o6(&y, &mut out) } None => tag = "none".into() } }
        "Fq12_mul_assign" => { let mut s = e.fq12("self"); s.mul_assign(&e.fq12("other")); o12(&s, &mut out); }
        "Fq12_square" => { let mut s = e.fq12("self"); s.square(); o12(&s, &mut out); }
        "Fq12_mul_by_014" => { let mut s = e.fq12("self"); s.mul_by_014(&e.fq2("c0"), &e.fq2("c1"), &e.fq2("c4")); o12(&s, &mut out); }
        "Fq2_frobenius_map" => { let mut s = e.fq2("self"); s.frobenius_map(e.s("k").parse().unwrap()); o2(&s, &mut out); }
        "Fq6_frobenius_map" => { let mut s = e.fq6("self"); s.frobenius_map(e.s("k").parse().unwrap()); o6(&s, &mut out); }
        "Fq12_frobenius_map" => { let mut s = e.fq12("self"); std::panic::set_hook(Box::new(|_| {})); let k: usize = e.s("k").parse().unwrap();
                                  match std::panic::catch_unwind(move || { s.frobenius_map(k); s }) { Ok(r) => o12(&r, &mut out), Err(_) => { tag = "panic".into(); } } }
        "Fq6_is_zero" => { tag = format!("{}", e.fq6("self").is_zero()); }
        "Fq12_is_zero" => { tag = format!("{}", e.fq12("self").is_zero()); }
        "Fq12_inverse" => { match e.fq12("self").inverse() { Some(y) => { tag = "some".into(); o12(&y, &mut out) } None => tag = "none".into() } }
        // ---- curve operations on arbitrary Jacobian triples (built with the public transmute constructors)
        "G1_op" | "G2_op" => {
            let op = e.s("op");
            macro_rules! grp { ($get:ident, $outp:ident, $Aff:ident) => {{
                let mut p = e.$get("p");
                match op.as_str() {
                    "add" => { p.add_assign(&e.$get("q")); $outp(&p, &mut out); }
                    "sub" => { p.sub_assign(&e.$get("q")); $outp(&p, &mut out); }
                    "add_mixed" => { let q = e.$get("q").into_affine(); p.add_assign_mixed(&q); $outp(&p, &mut out); }
                    "double" => { p.double(); $outp(&p, &mut out); }
                    "negate" => { p.negate(); $outp(&p, &mut out); }
                    "eq" => { tag = format!("{}", p == e.$get("q")); }
                    "mul_assign" => { p.mul_assign(fr_repr(&e.s("k"))); $outp(&p, &mut out); }
                    "affine_mul" => { let r = p.into_affine().mul(fr_repr(&e.s("k"))); $outp(&r, &mut out); }
                    "in_subgroup" => { tag = format!("{}", p.into_affine().in_subgroup()); }
                    "precomp_256" => { let a = p.into_affine(); let mut pre = vec![$Aff::zero(); 256]; a.precomp_256(&mut pre); let r = a.mul_precomp_256(fr_repr(&e.s("k")), &pre); $outp(&r, &mut out); }
                    "batch_norm" => { let n: usize = e.s("n").parse().unwrap_or(0); let mut v = Vec::new(); for i in 0..n { v.push(e.$get(&format!("p{}", i))); }
                                      CurveProjective::batch_normalization(&mut v);
                                      for q in v.iter() { if !q.is_normalized() { out.push("notnorm".into()); } else if q.is_zero() { out.push("inf".into()); } else { $outp(q, &mut out); } } }
                    "precomp_3" => { let a = p.into_affine(); let mut pre = vec![$Aff::zero(); 3]; a.precomp_3(&mut pre); let r = a.mul_precomp_3(fr_repr(&e.s("k")), &pre); $outp(&r, &mut out); }
                    // wNAF contexts; k0 (optional, comma separated) are scalars used on the SAME context before k (reuse history)
                    "wnaf_sb" => { let mut ctx = pairing::Wnaf::new(); let hp = if e.0.contains_key("q__z") || e.0.contains_key("q__z__c0") { e.$get("q") } else { p };
                                   for k0 in e.s("k0").split(',').filter(|x| !x.is_empty()) { let _ = ctx.scalar(fr_repr(k0)).base(hp); }
                                   let r = ctx.scalar(fr_repr(&e.s("k"))).base(p); $outp(&r, &mut out); }
                    "wnaf_bs" => { let mut ctx = pairing::Wnaf::new(); let n: usize = e.s("n").parse().unwrap_or(1);
                                   let hp = if e.0.contains_key("q__z") || e.0.contains_key("q__z__c0") { e.$get("q") } else { p };
                                   for k0 in e.s("k0").split(',').filter(|x| !x.is_empty()) { let _ = ctx.base(hp, n).scalar(fr_repr(k0)); }
                                   let r = ctx.base(p, n).scalar(fr_repr(&e.s("k"))); $outp(&r, &mut out); }
                    "wnaf_staged" => { let mut ctx = pairing::Wnaf::new(); let n: usize = e.s("n").parse().unwrap_or(1); let mut st = ctx.base(p, n);
                                   for k0 in e.s("k0").split(',').filter(|x| !x.is_empty()) { let _ = st.scalar(fr_repr(k0)); }
                                   let r = st.scalar(fr_repr(&e.s("k"))); $outp(&r, &mut out); }
                    _ => { println!("{{\"error\":\"unknown op\"}}"); return; }
                }
            }}; }
            if label == "G1_op" { grp!(g1, out_g1, G1Affine) } else { grp!(g2, out_g2, G2Affine) }
        }
        // ---- decoders
        "decode" => {
            let b = hex_bytes(&e.s("bytes")); let kind = e.s("kind"); let checked = e.s("checked") == "1";
            macro_rules! dec { ($E:ident, $outa:ident) => {{ let mut x = $E::empty(); x.as_mut().copy_from_slice(&b);
                let r = if checked { x.into_affine() } else { x.into_affine_unchecked() };
                match r { Ok(a) => { tag = "Ok".into(); $outa(&a, &mut out); } Err(er) => { tag = err_kind(&er).into(); } } }}; }
            match kind.as_str() { "g1u" => dec!(G1Uncompressed, out_a1), "g1c" => dec!(G1Compressed, out_a1), "g2u" => dec!(G2Uncompressed, out_a2), "g2c" => dec!(G2Compressed, out_a2),
                                  _ => { println!("{{\"error\":\"unknown kind\"}}"); return; } }
        }
        // ---- message expansion and field hashing (a panic is reported as tag "panic")
        "expand" => {
            let msg = hex_bytes(&e.s("msg")); let dst = hex_bytes(&e.s("dst")); let len: usize = e.s("len").parse().unwrap();
            let variant = e.s("variant");
            std::panic::set_hook(Box::new(|_| {}));
            let r = std::panic::catch_unwind(|| match variant.as_str() {
                "xmd256" => ExpandMsgXmd::<sha2::Sha256>::expand_message(&msg, &dst, len),
                "xmd512" => ExpandMsgXmd::<sha2::Sha512>::expand_message(&msg, &dst, len),
                "xmd384" => ExpandMsgXmd::<sha2::Sha384>::expand_message(&msg, &dst, len),
                "xmd224" => ExpandMsgXmd::<sha2::Sha224>::expand_message(&msg, &dst, len),
                "xof128" => ExpandMsgXof::<sha3::Shake128>::expand_message(&msg, &dst, len),
                _ => ExpandMsgXof::<sha3::Shake256>::expand_message(&msg, &dst, len),
            });
            match r { Ok(v) => { tag = bytes_hex(&v); } Err(_) => { tag = "panic".into(); } }
        }
        "hash_to_field" => {
            let msg = hex_bytes(&e.s("msg")); let dst = hex_bytes(&e.s("dst")); let count: usize = e.s("count").parse().unwrap();
            let frh = |x: &Fr| { let r = x.into_repr(); let mut s = String::from("0x"); for i in (0..4).rev() { s.push_str(&format!("{:016x}", r.0[i])); } s };
            match (e.s("field").as_str(), e.s("variant").as_str()) {
                ("fq", "xmd256") => { for x in hash_to_field::<Fq, ExpandMsgXmd<sha2::Sha256>>(&msg, &dst, count) { out.push(fq_hex(&x)); } }
                ("fq", _) => { for x in hash_to_field::<Fq, ExpandMsgXof<sha3::Shake128>>(&msg, &dst, count) { out.push(fq_hex(&x)); } }
                ("fr", "xmd256") => { for x in hash_to_field::<Fr, ExpandMsgXmd<sha2::Sha256>>(&msg, &dst, count) { out.push(frh(&x)); } }
                ("fr", _) => { for x in hash_to_field::<Fr, ExpandMsgXof<sha3::Shake128>>(&msg, &dst, count) { out.push(frh(&x)); } }
                ("fq2", "xmd256") => { for x in hash_to_field::<Fq2, ExpandMsgXmd<sha2::Sha256>>(&msg, &dst, count) { o2(&x, &mut out); } }
                _ => { for x in hash_to_field::<Fq2, ExpandMsgXof<sha3::Shake128>>(&msg, &dst, count) { o2(&x, &mut out); } }
            }
        }
        // ---- the hashing API next to its composition from hash_to_field and the public map: out = hash_to_curve, encode_to_curve, map2(u0, u1), map(u);
        //      tag = uncompressed bytes of hash_to_curve ":" of encode_to_curve
        "h2c" => {
            let msg = hex_bytes(&e.s("msg")); let dst = hex_bytes(&e.s("dst"));
            macro_rules! h2c { ($G:ident, $F:ident, $X:ty, $outp:ident) => {{
                let ro = <$G as HashToCurve<$X>>::hash_to_curve(&msg, &dst);
                let nu = <$G as HashToCurve<$X>>::encode_to_curve(&msg, &dst);
                let u2 = hash_to_field::<$F, $X>(&msg, &dst, 2);
                let u1 = hash_to_field::<$F, $X>(&msg, &dst, 1);
                let cro = <$G as MapToCurve<$G>>::map2_to_curve(&u2[0], &u2[1]);
                let cnu = <$G as MapToCurve<$G>>::map_to_curve(&u1[0]);
                tag = format!("{}:{}", bytes_hex(ro.into_affine().into_uncompressed().as_ref()), bytes_hex(nu.into_affine().into_uncompressed().as_ref()));
                for p in [ro, nu, cro, cnu].iter() { let mut o = Vec::new(); $outp(p, &mut o); out.push(o.join(",")); }
            }}; }
            match (e.s("g").as_str(), e.s("variant").as_str()) {
                ("g1", "xmd256") => h2c!(G1, Fq, ExpandMsgXmd<sha2::Sha256>, out_g1),
                ("g1", "xmd512") => h2c!(G1, Fq, ExpandMsgXmd<sha2::Sha512>, out_g1),
                ("g1", _) => h2c!(G1, Fq, ExpandMsgXof<sha3::Shake128>, out_g1),
                ("g2", "xmd256") => h2c!(G2, Fq2, ExpandMsgXmd<sha2::Sha256>, out_g2),
                ("g2", "xmd512") => h2c!(G2, Fq2, ExpandMsgXmd<sha2::Sha512>, out_g2),
                _ => h2c!(G2, Fq2, ExpandMsgXof<sha3::Shake128>, out_g2),
            }
        }
        // ---- products of pairings through the real code: out = [FE(joint loop), product of the single pairings, pairing_multi_product, pairing_product (n = 2) or "",
        //      FE(joint loop) again with the SAME prepared elements, joint Miller value, product of the single-pair Miller values], each as 12 coefficients joined by ","
        "pairings" => {
            let n: usize = e.s("n").parse().unwrap();
            let ps: Vec<G1Affine> = (0..n).map(|i| e.g1(&format!("p{}", i)).into_affine()).collect();
            let qs: Vec<G2Affine> = (0..n).map(|i| e.g2(&format!("q{}", i)).into_affine()).collect();
            let pp: Vec<_> = ps.iter().map(|p| p.prepare()).collect();
            let qp: Vec<_> = qs.iter().map(|q| q.prepare()).collect();
            let refs: Vec<(&_, &_)> = pp.iter().zip(qp.iter()).collect();
            let j12 = |x: &Fq12| { let mut o = Vec::new(); o12(x, &mut o); o.join(",") };
            std::panic::set_hook(Box::new(|_| {}));
            let r = std::panic::catch_unwind(std::panic::AssertUnwindSafe(|| {
            let mut out: Vec<String> = Vec::new();
            let ml = Bls12::miller_loop(refs.iter());
            let joint = Bls12::final_exponentiation(&ml).unwrap();
            let mut prod = Fq12::one(); let mut mlprod = Fq12::one();
            for i in 0..n { prod.mul_assign(&Bls12::pairing(ps[i], qs[i])); mlprod.mul_assign(&Bls12::miller_loop([(&pp[i], &qp[i])].iter())); }
            let multi = Bls12::pairing_multi_product(&ps, &qs);
            let two = if n == 2 { j12(&Bls12::pairing_product(ps[0], qs[0], ps[1], qs[1])) } else { String::new() };
            let again = Bls12::final_exponentiation(&Bls12::miller_loop(refs.iter())).unwrap();
            out.push(j12(&joint)); out.push(j12(&prod)); out.push(j12(&multi)); out.push(two); out.push(j12(&again)); out.push(j12(&ml)); out.push(j12(&mlprod));
            out }));
            match r { Ok(o) => { out = o; } Err(_) => { tag = "panic".into(); } }
        }
        // ---- multi-scalar multiplication: points p0.., scalars k0.. (n of each unless np / nk say otherwise)
        "msm_g1" | "msm_g2" => {
            let np: usize = e.s("np").parse().unwrap(); let nk: usize = e.s("nk").parse().unwrap(); let op = e.s("op");
            let ks: Vec<[u64; 4]> = (0..nk).map(|i| fr_repr(&e.s(&format!("k{}", i))).0).collect();
            let kr: Vec<&[u64; 4]> = ks.iter().collect();
            macro_rules! msm { ($get:ident, $outp:ident, $Aff:ident) => {{
                let ps: Vec<$Aff> = (0..np).map(|i| e.$get(&format!("p{}", i)).into_affine()).collect();
                std::panic::set_hook(Box::new(|_| {}));
                let r = std::panic::catch_unwind(|| match op.as_str() {
                    "default" => $Aff::sum_of_products(&ps, &kr),
                    "precomp" => { let mut pre = vec![$Aff::zero(); 256 * ps.len()]; for (i, p) in ps.iter().enumerate() { p.precomp_256(&mut pre[256 * i..256 * (i + 1)]); }
                                   $Aff::sum_of_products_precomp_256(&ps, &kr, &pre) }
                    w => $Aff::sum_of_products_pippinger(&ps, &kr, w.parse().unwrap()),
                });
                match r { Ok(p) => { $outp(&p, &mut out); } Err(_) => { tag = "panic".into(); } }
            }}; }
            if label == "msm_g1" { msm!(g1, out_g1, G1Affine) } else { msm!(g2, out_g2, G2Affine) }
        }
        // ---- encoders: bytes of a point given by a Jacobian triple
        "encode" => {
            let kind = e.s("kind");
            match kind.as_str() {
                "g1u" => { tag = bytes_hex(e.g1("p").into_affine().into_uncompressed().as_ref()); }
                "g1c" => { tag = bytes_hex(e.g1("p").into_affine().into_compressed().as_ref()); }
                "g2u" => { tag = bytes_hex(e.g2("p").into_affine().into_uncompressed().as_ref()); }
                "g2c" => { tag = bytes_hex(e.g2("p").into_affine().into_compressed().as_ref()); }
                _ => { println!("{{\"error\":\"unknown kind\"}}"); return; }
            }
        }
        "deser" => {
            let b = hex_bytes(&e.s("bytes")); let kind = e.s("kind"); let compressed = e.s("compressed") == "1";
            let mut rd: &[u8] = &b[..];
            macro_rules! de { ($T:ident, $outp:ident) => {{ match $T::deserialize(&mut rd, compressed) { Ok(p) => { tag = format!("Ok:{}", b.len() - rd.len()); $outp(&p, &mut out); } Err(_) => { tag = "Err".into(); } } }}; }
            fn out_fr(x: &Fr, out: &mut Vec<String>) { let r = x.into_repr(); let mut s = String::from("0x"); for i in (0..4).rev() { s.push_str(&format!("{:016x}", r.0[i])); } out.push(s); }
            match kind.as_str() { "g1" => de!(G1, out_g1), "g2" => de!(G2, out_g2), "g1a" => de!(G1Affine, out_a1), "g2a" => de!(G2Affine, out_a2),
                                  "fr" => de!(Fr, out_fr), "fq12" => de!(Fq12, o12),
                                  _ => { println!("{{\"error\":\"unknown kind\"}}"); return; } }
        }
        // ---- stream serialization: the bytes written after a 3-byte prefix already in the sink
        "ser" => {
            let kind = e.s("kind"); let compressed = e.s("compressed") == "1";
            let mut w: Vec<u8> = vec![0xaa, 0xbb, 0xcc];
            let r = match kind.as_str() {
                "g1" => e.g1("p").serialize(&mut w, compressed), "g2" => e.g2("p").serialize(&mut w, compressed),
                "g1a" => e.g1("p").into_affine().serialize(&mut w, compressed), "g2a" => e.g2("p").into_affine().serialize(&mut w, compressed),
                "fr" => Fr::from_repr(fr_repr(&e.s("k"))).unwrap().serialize(&mut w, compressed),
                "fq12" => e.fq12("x").serialize(&mut w, compressed),
                _ => { println!("{{\"error\":\"unknown kind\"}}"); return; } };
            tag = if r.is_ok() { bytes_hex(&w) } else { "Err".into() };
        }
        // ---- hash_to_field reductions
        "from_okm" => {
            let b = hex_bytes(&e.s("bytes"));
            if e.s("field") == "fq" { let x = Fq::from_okm(GenericArray::from_slice(&b)); out.push(fq_hex(&x)); }
            else { let x = Fr::from_okm(GenericArray::from_slice(&b)); let r = x.into_repr(); let mut s = String::from("0x"); for i in (0..4).rev() { s.push_str(&format!("{:016x}", r.0[i])); } out.push(s); }
        }
        "prime_field_api" => { if e.s("field") == "fq" { prime_field_api!(Fq, FqRepr, 6, e, out, tag) } else { prime_field_api!(Fr, FrRepr, 4, e, out, tag) } }
        "map" => {
            // stand-in `map_to_curve_api` (C14): map2(u0, u1) against map(u0) + map(u1) (real addition), all three in the subgroup
            macro_rules! mp { ($G:ident, $u0:expr, $u1:expr, $outp:ident) => {{
                let a = <$G as MapToCurve<$G>>::map_to_curve(&$u0); let b = <$G as MapToCurve<$G>>::map_to_curve(&$u1);
                let c = <$G as MapToCurve<$G>>::map2_to_curve(&$u0, &$u1);
                let mut s = a; s.add_assign(&b);
                tag = format!("{}|{}|{}", a.into_affine().in_subgroup(), b.into_affine().in_subgroup(), c.into_affine().in_subgroup());
                for p in [a, b, c, s].iter() { let mut o = Vec::new(); $outp(p, &mut o); out.push(o.join(",")); }
            }}; }
            if e.s("g") == "g1" { mp!(G1, e.fq("u0"), e.fq("u1"), out_g1) } else { mp!(G2, e.fq2("u0"), e.fq2("u1"), out_g2) }
        }
        "final_exp" => { match Bls12::final_exponentiation(&e.fq12("self")) { Some(y) => { tag = "some".into(); o12(&y, &mut out) } None => tag = "none".into() } }
        "fq2_misc" => {
            let a = e.fq2("a"); let b = e.fq2("b");
            tag = format!("{:?}|{:?}|{:?}|{}", a.cmp(&b), a.partial_cmp(&b), a.legendre(), if a.sgn0() == Sgn0Result::Negative { 1 } else { 0 });
            match a.sqrt() { Some(r) => o2(&r, &mut out), None => out.push("none".into()) }
        }
        _ => { println!("{{\"error\":\"unknown label\"}}"); return; }
    }
    println!("{{\"tag\":\"{}\",\"out\":[{}]}}", tag, out.iter().map(|s| format!("\"{}\"", s)).collect::<Vec<_>>().join(","));
}
