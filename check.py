#!/usr/bin/env python3
"""check.py <property id> [--tier quick|thorough] [--record]

Exit 0: every obligation of the property discharged on /repo's current working tree.
Exit 1: an obligation that is discharged on the pinned tree fails now  -> `VIOLATION property=<id> replay=<path>`
Exit 2: undecided (tool limit, lost anchor, unsupported construct) - never an alarm.
"""
import sys, os, json, time, argparse, traceback
VERIF = os.path.dirname(os.path.abspath(__file__))
sys.path.insert(0, VERIF)
from vx import driver
from vx.rs import AnchorLost
from vx.weave import Unsupported
import props


def main():
    ap = argparse.ArgumentParser()
    ap.add_argument('prop')
    ap.add_argument('--tier', default=os.environ.get('VERIF_TIER', 'quick'))
    ap.add_argument('--record', action='store_true', help='record the obligations discharged now as the expectation (pristine tree only)')
    a = ap.parse_args()
    seed = int(os.environ.get('VERIF_SEED', '0') or 0)
    P = props.PROPS[a.prop]
    t0 = time.time()
    units = P['units_quick'] if a.tier == 'quick' else P.get('units_thorough', P['units_quick'])
    ev = dict(property_id=a.prop, tier=a.tier, seed=seed, level=P.get('category', 'proof'), wall_s=0.0, violations=0,
              coverage=dict(obligations=0, discharged=0, checker_cmd='', trusted_base=[], samples=[], functions_under_contract=[],
                            units={}, rewrites={}, not_covered=P.get('not_covered', []), explanation=P.get('claim', '')),
              assumptions=list(P.get('assumptions', [])))
    undecided, violations = [], []
    try:
        src, th = driver.expand()
    except Exception as e:
        return finish(a, ev, t0, [], [f"expansion: {e}"], record=False)
    known = load_known()
    expected_all = load_expected()
    for uname in units:
        if uname.startswith('symx:'):
            from vx import symiso
            cov = ev['coverage']
            try:
                sr = symiso.run()
            except (AnchorLost, Unsupported) as e:
                undecided.append(f"{uname}: {type(e).__name__}: {e}")
                continue
            names = [o['name'] for o in sr['obligations']]
            okn = [o['name'] for o in sr['obligations'] if o['ok']]
            cov['units'][uname] = dict(files=[dict(file='symx_iso.rs', status='pass' if len(okn) == len(names) else 'fail', verified=len(okn), wall_s=round(sr['wall'], 2),
                                                   backend='symbolic execution: real body compiled by rustc against vx/symx_base.rs + factored polynomial normal form (vx/ring.py); NOT Verus',
                                                   reason='', errors=[o for o in sr['obligations'] if not o['ok']][:6])], functions=names, table_lengths=sr['lens'])
            cov['checker_cmd'] = sr['cmd']
            cov['functions_under_contract'] += [f"{uname}:isogeny::eval_iso", f"{uname}:isogeny::g1::isogeny_map", f"{uname}:isogeny::g2::isogeny_map"]
            cov['obligations'] += len(names)
            cov['discharged'] += len(okn)
            cov['samples'] += [dict(obligation=n, status='discharged') for n in okn[:3]]
            exp = expected_all.get(uname)
            if a.record:
                expected_all[uname] = sorted(okn)
            elif exp is None:
                undecided.append(f"{uname}: no recorded expectation")
            else:
                for o in sr['obligations']:
                    if o['ok'] is None:
                        undecided.append(f"{uname}: {o['name']}: {o.get('note')}")
                    elif not o['ok']:
                        base = o['name'].split('[')[0]
                        if base in exp:
                            violations.append(dict(unit=uname.replace(':', '_'), obligation=o['name'].replace('::', '_').replace("'", '').replace('[', '_').replace(']', '').replace(' ', ''),
                                                   errors=[dict(msg='output coordinate differs from the specified rational map', line=0, file='symx_iso.rs', fn=o['name'])],
                                                   ring=None, symx=o.get('witness')))
                        else:
                            undecided.append(f"{uname}: {o['name']} differs but was not established on the pinned tree either")
                missing = [n for n in exp if n not in [x.split('[')[0] for x in names]]
                if missing:
                    undecided.append(f"{uname}: expected obligations missing: {missing}")
            continue
        if uname.startswith('kani:'):
            from vx import kani
            kr = kani.run(group=uname.split(':', 1)[1])
            cov = ev['coverage']
            cov['units'][uname] = dict(files=[dict(file='kani/src/lib.rs', status=kr['status'], verified=len(kr['harnesses']) - len(kr['failed']), wall_s=round(kr['wall'], 1),
                                                   backend='kani 0.68 / cbmc 6.11 (bit-precise, full input domain, unwinding assertions on)', reason=kr['reason'][:500],
                                                   errors=kr['failed'])], functions=kr['harnesses'])
            cov['checker_cmd'] = kr['cmd']
            cov['functions_under_contract'] += [f"{uname}:{h}" for h in kr['harnesses']]
            if kr['status'] == 'undecided':
                undecided.append(f"{uname}: {kr['reason'][:600]}")
                continue
            okh = [h for h in kr['harnesses'] if h not in kr['failed']]
            cov['obligations'] += len(kr['harnesses'])
            cov['discharged'] += len(okh)
            cov['samples'] += [dict(obligation=h, status='discharged') for h in okh[:4]]
            exp = expected_all.get(uname)
            if a.record:
                expected_all[uname] = sorted(okh)
            elif exp is None:
                undecided.append(f"{uname}: no recorded expectation")
            else:
                for h in kr['failed']:
                    if h in exp:
                        cx = kani.counterexample(kr, h)
                        fc = (cx or {}).get('failed_checks') or []
                        if fc and all('unwinding assertion' in x for x in fc):
                            # only the loop bound of the harness was exceeded: the bounded exploration is incomplete, nothing was refuted
                            undecided.append(f"{uname}: harness {h}: unwinding assertion failed (loop bound of the harness too small for this code) - undecided, not a violation")
                            continue
                        violations.append(dict(unit=uname.replace(':', '_'), obligation=h.replace('::', '_'), errors=[dict(msg='kani: assertion failed', line=0, file='kani/src/lib.rs', fn=h)],
                                               ring=None, kani=cx))
                    else:
                        undecided.append(f"{uname}: harness {h} fails but was not verified on the pinned tree either")
                missing = [h for h in exp if h not in kr['harnesses']]
                if missing:
                    undecided.append(f"{uname}: expected harnesses missing: {missing[:5]}")
            continue
        try:
            seeds = [None] if a.tier == 'quick' else [None]
            res = driver.build_and_verify(uname, src, th, timeout=P.get('timeout', 900))
        except (AnchorLost, Unsupported) as e:
            undecided.append(f"unit {uname}: {type(e).__name__}: {e}")
            continue
        except Exception as e:
            undecided.append(f"unit {uname}: internal error: {e}\n{traceback.format_exc()[-1500:]}")
            continue
        u = res['unit']
        cov = ev['coverage']
        uinfo = dict(files=[], functions=u.functions, build_s=round(res['build_s'], 2), ring=getattr(u, 'ring_info', {}))
        cov['functions_under_contract'] += [f"{uname}:{k}" for k in u.functions]
        for k, v in u.rewrites.items():
            cov['rewrites'][k] = cov['rewrites'].get(k, 0) + v
        cov['trusted_base'] += [f"{uname}:{t}" + props.provenance(uname, t) for t in sorted(set(res['trusted']))]
        main_ok_fns, main_fail = set(), []
        for c in res['results']:
            if c['suffix'] == 'canary':
                # must-fail canaries: never counted as obligations; one that verifies makes the unit's result vacuous -> undecided
                cn = c.get('canary') or {}
                uinfo['canaries'] = dict(file=os.path.basename(c['file']), status=c['status'], expected_to_fail=len(cn.get('expected', [])),
                                         verified_unexpectedly=cn.get('verified'), wall_s=round(c['wall'], 1), reason=c['reason'][:300])
                if cn.get('verified'):
                    undecided.append(f"unit {uname}: must-fail canaries verified (contradictory precondition or axioms, the proof would be vacuous): {cn['verified'][:8]}")
                continue
            ok_fns = [driver.qual(b['function']) for b in c['breakdown'] if b.get('success')]
            bad_fns = [driver.qual(b['function']) for b in c['breakdown'] if not b.get('success')]
            nerr = len({e['fn'] for e in c['errors']}) if c['status'] != 'pass' else 0
            cov['obligations'] += c['verified'] + nerr
            cov['discharged'] += c['verified']
            uinfo['files'].append(dict(file=os.path.basename(c['file']), status=c['status'], verified=c['verified'], wall_s=round(c['wall'], 1),
                                       smt_ms=sum(b.get('time', 0) for b in c['breakdown']), backend='verus 0.2026.09.13 / z3 4.16',
                                       reason=c['reason'][:500], errors=c['errors'][:10]))
            cov['checker_cmd'] = c['cmd']
            if c['suffix'] == 'main':
                main_ok_fns = set(ok_fns)
                if c['status'] == 'fail':
                    main_fail = c['errors']
                elif c['status'] == 'undecided':
                    undecided.append(f"unit {uname} main file: {c['reason'][:800]}")
            else:
                if c['status'] != 'pass':
                    undecided.append(f"unit {uname} lemma file {os.path.basename(c['file'])}: {c['status']} {c['reason'][:300]} "
                                     f"{[(e['fn'], e['msg'][:80]) for e in c['errors'][:3]]}")
        cov['units'][uname] = uinfo
        # expectation: obligations discharged on the pinned tree
        exp = expected_all.get(uname)
        if a.record:
            expected_all[uname] = sorted(main_ok_fns)
        elif exp is not None:
            failing = {e['fn'] for e in main_fail if e['fn']}
            for fnname in sorted(failing):
                if fnname in exp:
                    errs = [e for e in main_fail if e['fn'] == fnname]
                    violations.append(dict(unit=uname, obligation=fnname, errors=errs, ring=find_ring(u, fnname)))
                else:
                    undecided.append(f"unit {uname}: obligation {fnname} fails but was not discharged on the pinned tree either")
            if not main_fail:
                missing = [f for f in exp if f not in main_ok_fns]
                if missing and not any(uname in x for x in undecided):
                    undecided.append(f"unit {uname}: expected obligations not reported: {missing[:10]}")
        else:
            undecided.append(f"unit {uname}: no recorded expectation (run --record on the pinned tree)")
        cov['samples'] += [dict(obligation=f"{uname}::{f}", status='discharged') for f in sorted(main_ok_fns)[:6]]
    if a.record:
        save_expected(expected_all)
    return finish(a, ev, t0, violations, undecided, known=known)


def find_ring(u, fnname):
    ri = getattr(u, 'ring_info', {}) or {}
    for label, info in ri.items():
        if label == fnname.replace('::', '_') and info.get('false_outputs'):
            return dict(label=label, **info)
    return None


def load_known():
    p = os.path.join(VERIF, 'known_findings.json')
    return json.load(open(p)) if os.path.exists(p) else dict(findings=[], fixed=[])


def load_expected():
    p = os.path.join(VERIF, 'expected_obligations.json')
    return json.load(open(p)) if os.path.exists(p) else {}


def save_expected(e):
    json.dump(e, open(os.path.join(VERIF, 'expected_obligations.json'), 'w'), indent=1, sort_keys=True)


def finish(a, ev, t0, violations, undecided, known=None, record=False):
    from vx import replay
    os.makedirs(os.path.join(VERIF, 'evidence'), exist_ok=True)
    os.makedirs(os.path.join(driver.OUT, 'replay'), exist_ok=True)
    lines = []
    nviol = 0
    # refutation search on the real code: only when something failed or could not be decided; never on a clean pass
    refuted = None
    reps = {}
    for i, v in enumerate(violations):
        if not match_known(known, a.prop, v):
            reps[i] = replay.make_replay(a.prop, v)
    if (undecided and not violations) or any(not r.get('confirmed_on_real_code') for r in reps.values()):
        try:
            from vx import refute
            refuted = refute.run(a.prop)
        except Exception:
            refuted = None
    if refuted and not violations:
        v = dict(unit='refuter', obligation=refuted['function'].replace(':', '_').replace(',', '_').replace('{', '').replace('}', '').replace('=', '_'), errors=[dict(msg='real code disagrees with the reference on a structured input (units undecided: ' + '; '.join(undecided)[:300] + ')', line=0, file='', fn=refuted['function'])], ring=None)
        violations = [v]
        reps[0] = dict(property=a.prop, unit='refuter', failed_obligation=refuted['function'], verifier_output=[dict(msg=u[:500]) for u in undecided], confirmed_on_real_code=True, **{k: refuted[k] for k in ('input', 'actual', 'expected', 'command')})
        undecided = []
    elif refuted:
        for i, r in reps.items():
            if not r.get('confirmed_on_real_code'):
                r.update(confirmed_on_real_code=True, refuter_finding=refuted,
                         note=(r.get('note', '') + ' | a failing input of the real code was found by the structured refutation search (vx/refute.py)').strip(' |'))
                break
    # stand-ins (labelled tests, never proofs): functions of this property that no contract reaches are driven on structured inputs
    # against the independent reference on every run; a disagreement is a violation with its failing input
    st_names = props.PROPS.get(a.prop, {}).get('standins', [])
    if st_names:
        from vx import refute
        ev['coverage']['stand_ins'] = []
        for nme, desc, evals, fail, note in refute.run_standins(st_names, thorough=(a.tier == 'thorough')):
            ev['coverage']['stand_ins'].append(dict(name=nme, covers=desc, evaluations=evals, status=('DISAGREES' if fail else 'agrees') if evals else 'not run',
                                                    note=note, label='tested (structured differential test of the compiled crate against an independent Python reference; '
                                                    'not a proof, not counted in obligations / discharged)'))
            if fail:
                i = len(violations)
                violations = violations + [dict(unit='standin', obligation=(nme + '-' + fail['function']).replace(':', '_').replace(',', '_').replace('=', '_'),
                                                errors=[dict(msg='stand-in test: the real code disagrees with the reference', line=0, file='', fn=fail['function'])], ring=None)]
                reps[i] = dict(property=a.prop, unit='standin', failed_obligation=nme + ': ' + fail['function'], verifier_output=[], confirmed_on_real_code=True,
                               **{k: fail[k] for k in ('input', 'actual', 'expected', 'command')})
    for i, v in enumerate(violations):
        kf = match_known(known, a.prop, v)
        if kf:
            lines.append(f"KNOWN-FINDING: property={a.prop} {kf}")
            continue
        path = os.path.join(driver.OUT, 'replay', f"{a.prop}-{v['unit']}-{v['obligation'].replace('::', '_')}.json")
        rep = reps.get(i) or replay.make_replay(a.prop, v)
        json.dump(rep, open(path, 'w'), indent=1)
        suffix = '' if rep.get('confirmed_on_real_code') else ' no-failing-input-found'
        lines.append(f"VIOLATION property={a.prop} replay={path}{suffix}")
        nviol += 1
    ev['violations'] = nviol
    ev['wall_s'] = round(time.time() - t0, 2)
    ev['coverage']['undecided'] = undecided
    ev['coverage']['trusted_base'] = sorted(set(ev['coverage']['trusted_base']))
    if ev['coverage']['obligations'] == 0:
        ev['coverage']['obligations'] = 0
    # schema: proof level needs obligations>=1 and discharged>=1 when those keys are present
    if ev['coverage']['obligations'] < 1 or ev['coverage']['discharged'] < 1:
        ev['level'] = 'other'
        ev['coverage']['explanation'] = 'no obligation was discharged in this run: ' + '; '.join(undecided)[:2000]
    json.dump(ev, open(os.path.join(os.environ.get('VERIF_EVIDENCE', os.path.join(VERIF, 'evidence')), a.prop + '.json'), 'w'), indent=1)
    for l in lines:
        print(l)
    if nviol:
        print(f"{a.prop}: {nviol} violated obligation(s)")
        return 1
    if undecided:
        print(f"{a.prop}: UNDECIDED (exit 2): " + ' | '.join(u[:400] for u in undecided))
        return 2
    c = ev['coverage']
    print(f"{a.prop}: {c['discharged']}/{c['obligations']} obligations discharged, {len(c['functions_under_contract'])} functions under contract, {ev['wall_s']} s")
    return 0


def match_known(known, prop, v):
    if not known:
        return None
    for k in known.get('findings', []):
        if k.get('property') == prop and k.get('unit') == v['unit'] and k.get('obligation') == v['obligation']:
            return k.get('what', '')
    return None


if __name__ == '__main__':
    try:
        rc = main()
    except SystemExit:
        raise
    except BaseException as e:      # an internal error of the machinery is never an alarm: undecided (exit 2)
        import traceback
        traceback.print_exc()
        print(f"UNDECIDED internal error of the checker: {type(e).__name__}: {e}")
        rc = 2
    sys.exit(rc)
