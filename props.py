"""property -> units, scope and assumptions (the claims; DESIGN.md sections 0, 3 and 6)"""
A = dict(
    A1="A1 q and r are prime (not checked)",
    A2="A2 Fq, Fr are fields: no zero divisors, inverses exist (from A1)",
    A3="A3 the chord-tangent relations define an abelian group on E(F); Jacobian representatives of one affine point are interchangeable",
    A4="A4 group orders |E(Fq)| = h1*r, |E'(Fq2)| = h2*r and the structure facts that make [h_eff] land in the r-torsion",
    A5="A5 the tower polynomials u^2+1, v^3-(u+1), w^2-v are irreducible, so relative norms vanish only at 0",
    A5p="A5' the Frobenius of the tower is the coefficient-wise map with the constants gamma^((q^k-1)/d)",
    A7="A7 Lagrange in Fq12*: f != 0 => f^(q^12-1) = 1",
    A8="A8 Euler's criterion in Fq / Fq2",
    D_FQ="contracts of Fq (add/sub/mul/square/negate/double/inverse/is_zero/eq, canonical range) enter this unit as stubs over an abstract value; they are the statements proved in unit mont (C08) "
         "for the real derive-generated code with value mv(x) = limbs * R^-1 mod q (inverse: partial correctness) - except pow / sqrt / legendre where used, which remain assumed",
    TOOLS="Verus 0.2026.09.13 + Z3 4.16, rustc -Zunpretty=expanded and its pretty printer, the slicing/weaving rules R0-R7 of DESIGN.md 2.2",
)

PROPS = {
    'C09': dict(
        standins=['tower_ops'],
        units_quick=['tower'], units_thorough=['tower'],
        claim="every listed Fq2/Fq6/Fq12 function (real body, sliced from rustc's expansion) equals the schoolbook operation of the quotient ring "
              "it lives in; inverses: Some(y) => x*y = 1 and x != 0, None => x = 0; sparse and non-residue products equal the dense product with the "
              "sparse operand; Frobenius = the coefficient-wise map with the crate's tables for every usize power.",
        not_covered=["that the coefficient-wise Frobenius map is x -> x^(q^k) (A5')", "random(), Display/Debug impls"],
        assumptions=[A['A5'], A['A5p'], A['D_FQ'], A['TOOLS']],
    ),
    'C17': dict(
        units_quick=['cofactor', 'curve'], units_thorough=['cofactor', 'curve'], timeout=1800,
        claim="chain_z, chain_h2_eff (real bodies, generic over CurveProjective), G1::clear_h and G2::clear_h return exactly [0xd201000000010000]P, "
              "[h_eff(G2)]P (the 636-bit RFC 9380 constant), [0xd201000000010001]P and [h_eff(G2)]P for every point of the abstract group, i.e. for every "
              "curve point in any representation; additivity and O -> O follow from the exact multiplier.",
        not_covered=["that [h_eff]P has order dividing r (A4: group orders)"],
        assumptions=[A['A3'], A['A4'], "contracts of CurveProjective::{double, add_assign, sub_assign, is_zero, ...} are assumed in this unit; they are the statements of the C01 unit lifted through A3", A['TOOLS']],
    ),
    'C12': dict(
        standins=['tower_ops'],
        units_quick=['finalexp', 'tower'], units_thorough=['finalexp', 'tower'], timeout=1800,
        claim="Bls12::final_exponentiation (real body): returns None exactly for f = 0 and otherwise f^E with E = 3(q^12-1)/r: the exponent accumulated "
              "by the real statements (conjugate, inverse, Frobenius 1..3, squarings, exp_by_x with the crate's BLS_X) is tracked as an integer and "
              "shown congruent to E modulo q^12-1; the Fq12 operations it calls are the contracts proved for the real tower code in unit `tower`; "
              "the exponentiation f.pow(&[x]) inside exp_by_x is ff's generic square-and-multiply loop (text of the pinned registry source), verified here at Fq12: pow(f,[e]) = f^e for every u64 e. "
              "Multiplicativity, image in mu_r and triviality on proper subfields are arithmetic corollaries of the exponent (not separate obligations).",
        not_covered=["that conjugation / the coefficient-wise Frobenius maps are x -> x^(q^k) (A5')", "Lagrange in Fq12* (A7)",
                     "ff's BitIterator (dependency) enters through its contract, proved on the pinned registry source in unit ffdep"],
        assumptions=[A['A5p'], A['A7'], "laws of f12pow in specs/f12pow.vrs (ring theory of the commutative ring of specs/tower.vrs), including f^0 = 1 (ax_f12pow_zero)",
                     "Field::pow (ff's generic default method) is verified in this unit at Fq12 with a one-limb exponent, the instance exp_by_x calls (rewrite R6: `S: AsRef<[u64]>` written out as &[u64; 1]); "
                     "its callee BitIterator::next enters through the contract proved in unit ffdep", A['D_FQ'], A['TOOLS']],
    ),
    'C11': dict(
        design_ref='DESIGN.md sections 0 and 9.8 (unit miller); section 3 shows the earlier plan',
        standins=['pairing_products'],
        units_quick=['miller', 'finalexp'], units_thorough=['miller', 'finalexp', 'tower', 'ffdep'], timeout=1800,
        claim="PARTIAL (the product structure; what a single pairing IS - bilinearity, the value e(g1,g2) - is C03's subject and not claimed). Bls12::miller_loop (real body, the generic iterator argument "
              "written out at a slice of pairs) returns, for every list of prepared pairs of any length including zero, the product over the list of mlk(pair), where mlk(pair) = 1 when either side is the "
              "identity (wherever the pair stands) and otherwise the textbook single-pair loop value ml1(pair) = conj( st(pair, |x|/2) * line_last ), st being the square-and-multiply recursion over the bits of "
              "BLS_X >> 1 with the pair's own coefficient list consumed in order: the accumulator shared across pairs equals the product of the per-pair accumulators after every bit (loop invariants for the "
              "bit loop and for each of the three passes over the pairs), every coefficient iterator advances in lock step, and no `next().unwrap()` can fail (68 coefficients are consumed). The nested fn "
              "`ell` multiplies by the sparse line value (real body against Fq12::mul_by_014). G2Prepared::from_affine (real body) marks exactly the identity and produces exactly 68 coefficients otherwise, "
              "which is miller_loop's precondition. Lemma `lemma_joint_is_product`: with final_exponentiation = x -> x^E (C12, run by this check as well) the final exponentiation of the joint loop equals the "
              "product of the final exponentiations of the single-pair loops, identity pairs contributing the factor 1; miller_loop on a one-element list returns mlk of that pair. The prepared elements are "
              "taken by shared reference and not modified (the contract's frame), so they can be reused.",
        not_covered=["bilinearity / e(g1,g2)^(sum a_i b_i) and the exact-1 statement for cancelling exponents (C03: not applicable, see DESIGN; the stand-in observes cancelling combinations through the compiled code)",
                     "the helpers pairing / pairing_product / pairing_multi_product (trait defaults in lib.rs built from closures, iterator adaptors and references to temporaries: outside the Verus subset) - only through the labelled stand-in",
                     "the values of the line coefficients (doubling_step / addition_step enter as uncontracted stubs)"],
        assumptions=["A-RING12: Fq12 with f12mul / f12one is a commutative monoid, conjugation is multiplicative and x -> x^e is multiplicative (axioms ax_f12mul_assoc / _comm / _one / _in, ax_f12conj_mul / _one / _in, ax_f12pow_mulbase / _of_one in specs/miller.vrs: mathematical facts about the specification functions, not about the code)",
                     "std::slice::Iter yields the elements of the slice in order: `Vec::iter` is replaced by a verified model of the slice iterator (rule R21); the generic argument `I: IntoIterator<Item = &(&G1Prepared, &G2Prepared)>` is instantiated at a slice of pairs (R6) and the `for` loops over the pair lists are desugared to index loops (R22 / R22m); the nested fns are lifted to items (R23)",
                     "contracts of Fq12::{one, square, conjugate, mul_by_014} and Fq::mul_assign proved in unit tower / mont; ff's BitIterator proved in unit ffdep", A['TOOLS']],
    ),
    'C01': dict(
        standins=['batch_normalization'],
        units_quick=['curve'], units_thorough=['curve'], timeout=1800,
        claim="curve_impl! point formulas (real bodies, both instantiations): double, add_assign, add_assign_mixed satisfy the chord-and-tangent law of "
              "y^2 = x^3 + b case by case (P = O, Q = O, same point -> tangent relations, opposite points -> O, otherwise chord relations with Z3 != 0), "
              "stated in cleared-denominator form over Jacobian triples, for all field values; negate, is_zero, zero, is_normalized exact. "
              "G1: every ring identity discharged by Verus. G2: control flow and case analysis discharged by Verus on the real G2 instantiation, ring identities "
              "transferred from the G1 instantiation (same macro text, T1).",
        not_covered=["batch_normalization (iterator pipeline outside the verifier's Rust subset)",
                     "the bridge from the relations to the abstract group (A3) and representation independence as a theorem",
                     "G2 ring identities are not discharged by Verus (transfer T1)"],
        assumptions=[A['A2'], A['A3'], "T1 an integer polynomial identity holds in every commutative ring (used to read G1's identities in Fq2)", A['D_FQ'], A['TOOLS']],
    ),
    'C14': dict(
        standins=['map_to_curve_api'],
        units_quick=['h2c', 'cofactor', 'curve'], units_thorough=['h2c', 'cofactor', 'curve'], timeout=1800,
        claim="map_to_curve(u) = [h_eff] iso(sswu(u)) and map2_to_curve(u0,u1) = [h_eff](iso(sswu(u0)) + iso(sswu(u1))) with + the group law of the "
              "target curve, for every u (generic real bodies verified once against the trait contracts of OSSWUMap, IsogenyMap, ClearH, add_assign); "
              "the result is annihilated by r and the debug assertion cannot fire (the panic call is proved unreachable). On the pre-fix code the "
              "obligation `add on E of two E' points` is not provable: the genuine defect repaired by the fix: commit.",
        not_covered=["the SSWU map itself (C15) and the isogeny (C16) enter through their trait contracts"],
        assumptions=[A['A3'], A['A4'], "A9 the isogeny is a homomorphism (only needed to equate with the RFC's add-then-map order; the code maps then adds)",
                     "trait contracts of OSSWUMap / IsogenyMap / ClearH / SubgroupCheck are assumed in unit h2c; ClearH's is proved in unit cofactor, add_assign's in unit curve", A['TOOLS']],
    ),
    'C05': dict(
        standins=['encoders_api', 'decoders_api'],
        units_quick=['encode', 'codec'], units_thorough=['encode', 'codec', 'recover', 'order', 'consts'], timeout=1800,
        claim="the byte accessors AsRef / AsMut<[u8]> of the four encoding newtypes (real bodies) hand out the whole array in order (length 96/48/192/96; writes through as_mut land in the encoding); "
              "the four encoders (real bodies of EncodedPoint::from_affine and empty for G1/G2, compressed/uncompressed) return exactly the byte strings enc_* of "
              "specs/encode.vrs, written from the property statement: fixed lengths 96/48/192/96 (array types), big-endian 48-byte coordinates, c1 before c0, "
              "infinity = flag 0x40 and all other bits zero, compression flag 0x80, sort flag 0x20 set iff y > -y (canonical integer order; Fq2 lexicographic with c1 first); "
              "every index and unwrap() is proved safe; CurveAffine::into_compressed / into_uncompressed (trait defaults written out at G1Affine / G2Affine) return the same byte strings. Proved lemmas over enc_* and the decoding functions dec_* that the real decoders are proved equal to (unit codec, C04): "
              "dec(enc(P)) == Ok(P) for every affine point with reduced coordinates (identity -> canonical identity; compressed: P on the curve), and "
              "dec(b) == Ok(P) ==> enc(P) == b for every byte string of the right length (the encoding is the only accepted preimage; hence enc is injective).",
        not_covered=["projective inputs reach the encoders through into_affine (C01 scope)",
                     "get_point_from_x enters through the contract proved in unit recover (thorough tier), restated as ax_gpfx1/2 with a textual link check"],
        assumptions=["D1w PrimeFieldRepr::write_be into a &mut [u8] cursor writes the 48 big-endian bytes at the front and advances (proved on the compiled code: kani:limbs harness write_be_cursor, C08)",
                     "Fq::into_repr returns the canonical integer (proved in unit mont, C08)", "Fq ordering is the canonical integer order (derive, C08); Fq2 ordering proved in unit order (C18)",
                     "A-FIELD: Fq and Fq2 are fields (a square has only the roots y, -y)", "A-ODD: neither curve has a point with y = 0 (numerically re-checked each run: -b is not a cube)", A['TOOLS']],
    ),
    'C06': dict(
        standins=['expand_message_hash_to_field', 'hash_to_curve_api'],
        units_quick=['h2c', 'sswu', 'sswuhelp', 'symx:iso', 'cofactor', 'expand'], units_thorough=['h2c', 'sswu', 'sswuhelp', 'symx:iso', 'cofactor', 'expand', 'curve', 'okm', 'consts'], timeout=1800,
        claim="PARTIAL (composition; the parts it composes are run by this check as well: SSWU C15, isogeny C16, cofactor clearing C17): hash_to_curve(msg,dst) = map2_to_curve(u[0],u[1]) with u = hash_to_field(msg,dst,2) and encode_to_curve = "
              "map_to_curve(hash_to_field(msg,dst,1)[0]): element count, indices and which map are verified on the real generic bodies; the result is "
              "a function of (msg, dst) only and is annihilated by r. RFC conformance of the stages is the conjunction of C13, C15, C16, C17, C14 under their scopes.",
        not_covered=["the hash primitives (D3); expand_message itself is under contract in unit expand (run by this check as well)", "SSWU (C15) and isogeny (C16) internals"],
        assumptions=[A['A4'], "contract of hash_to_field (count elements, element i a function of (msg,dst,count,i)) assumed here", A['TOOLS']],
    ),
    'C07': dict(
        standins=['batch_normalization'],
        units_quick=['scalar', 'consts', 'codec', 'serdes'], units_thorough=['scalar', 'consts', 'codec', 'serdes', 'curve', 'cofactor', 'h2c', 'ffdep'], timeout=1800,
        claim="the membership predicate (real bodies, G1 and G2): in_subgroup(p) == (p is the identity or y^2 = x^3 + b) and [r]p = O, composed of "
              "is_on_curve (field formula exact), is_in_correct_subgroup_assuming_on_curve = mul(Fr::char()).is_zero() with mul the verified "
              "double-and-add; scale_by_cofactor multiplies by exactly h1 / h2. Closure of the subgroup under the group operations is group theory over "
              "the contracts of C01/C02; hash and map outputs: C14; successfully decoded / deserialized points pass the checked decoder, whose last test is this predicate "
              "(units codec and serdes, also run by this check).",
        not_covered=["random(): rejection loop over an RNG", "batch_normalization (hands out points too; iterator pipeline outside the Verus subset): only through the labelled stand-in of C01, run by this check as well",
                     "generators: [r]G = O is computed on the standard coordinates by the generator of unit consts with exact integer arithmetic (a closed-term check, not a Verus obligation); that get_generator returns those constants is read off the code",
                     "Fr MODULUS = r, B_COEFF = 4 and the G1 and G2 generator coordinates (standard values, on the curve) are checked as closed terms in unit consts"],
        assumptions=[A['A3'], A['A4'], "ff::BitIterator contract (MSB-first bits of the limb value): proved on the pinned registry source in unit ffdep (thorough tier)", A['D_FQ'], A['TOOLS']],
    ),
    'C02': dict(
        standins=['wnaf_contexts_precomp_3'],
        units_quick=['scalar', 'precomp', 'wnaf', 'ffdep'], units_thorough=['scalar', 'precomp', 'wnaf', 'ffdep', 'curve'], timeout=1800,
        claim="PARTIAL: the plain scalar-multiplication paths (real bodies, G1 and G2): affine mul_bits / mul (double and mixed add, MSB first) and "
              "projective mul_assign (leading-zero skipping) return [k]P for every limb value k of the scalar representation (all 2^256 values, any limb "
              "count for mul_bits), by a loop invariant over ff's BitIterator contract and proved bit-decomposition lemmas. The 256-entry table path (real bodies, G1 and G2): "
              "precomp_256 fills entry b with [sum over the set bits j of b of 2^(32j)]P for all 256 b, and mul_precomp_256 returns [k]P for every 256-bit k given such a "
              "table (the eight extraction expressions are related to the bits of the 32-bit chunks by bit-vector lemmas stated over the code's own expressions). "
              "wNAF (real generic bodies of src/wnaf.rs, every window 1..=22): wnaf_table replaces the buffer by the odd multiples P, 3P, ..., (2^w - 1)P whatever it held before; "
              "wnaf_form replaces the digit buffer by digits d_i (0 or odd, |d_i| < 2^w) with sum d_i 2^i == c for every c with c + 2^w below the limb capacity, whatever it held before, and terminates; "
              "wnaf_exp returns [sum d_i 2^i]P for every such table and digit string with every table index in bounds; hence wnaf_exp(wnaf_table(P, w), wnaf_form(k, w)) == [k]P. "
              "The recommended window sizes (empirical_recommended_wnaf_* and the trait entry points, G1 and G2) lie in 2..=22 for every input. "
              "wNAF contexts (real bodies): Wnaf::new().base(P, n) holds a window table of P for a window in 2..=22 and .scalar(k) on it returns [k]P and leaves table and window unchanged; "
              "Wnaf::new().scalar(k) holds a digit string of k and .base(P) on it returns [k]P and leaves digits and window unchanged; shared() carries the computed half and the window over; "
              "no method has a precondition on the previous contents of the buffers it refills, so every history of reuse re-establishes these invariants (each postcondition implies the next precondition). "
              "The 3-entry table path (real bodies, G1 and G2): precomp_3 stores [2^64]P, [2^128]P, [2^192]P; mul_precomp_3 builds the 16 subset sums of (P, [2^64]P, [2^128]P, [2^192]P) and returns [k]P for every 256-bit k "
              "(nibble extraction related to bit i of the four words by bit-vector lemmas over the code's own expressions).",
        not_covered=["the generic Wnaf::base<G> / Wnaf::scalar<G> are proved at the four (B, S) instances the crate's own API can produce (Vec<_>, &mut Vec<_>, &[_]); a foreign AsRef/AsMut implementation is outside the claim",
                     "ff::BitIterator (dependency): its contract is proved for the text of the pinned registry source in unit ffdep; the precondition n <= 64 len is the type's private invariant (fields private, only new() constructs)"],
        assumptions=[A['A3'], "ff::BitIterator: contract proved in unit ffdep on the registry source of the version pinned by Cargo.lock", "group-level contracts of double / add_assign / add_assign_mixed / sub_assign are the statements of unit curve lifted through A3",
                     "wnaf_form sees PrimeFieldRepr through integer-level contracts of is_zero / is_odd / as_ref()[0] / From<u64> / sub_noborrow / add_nocarry / div2 (those the C08 Kani harnesses prove for FrRepr / FqRepr limb-wise); "
                     "FrRepr::num_bits <= 256 (C08 harness num_bits)",
                     "wnaf_exp carries two ghost (erased) parameters, the base point and the window, that its contract refers to",
                     "rewrite R6m: the AsRef / AsMut receiver expressions of Wnaf::base<G> / scalar<G> are written out for Vec<_>, &mut Vec<_>, &[_] (the reborrow std's impls return)",
                     "rewrites R3s (for n in x.iter().rev()), R4b (for r in &CONST_ARRAY), R13 (integer-literal fallback i32 written out), R14 (operators on &i64 written with explicit deref)", A['TOOLS']],
    ),
    'C04': dict(
        standins=['fq2_sqrt_order', 'decoders_api'],
        units_quick=['codec', 'scalar', 'recover', 'order'], units_thorough=['codec', 'scalar', 'recover', 'order', 'curve'], timeout=1800,
        claim="the four decoders (real bodies of into_affine_unchecked and into_affine for G1/G2, compressed/uncompressed) equal the decoding functions "
              "dec_* / chk_* of specs/codec.vrs, written from the property statement, for every byte string of the right length: form flag, then "
              "infinity (all other bits zero) / sort flags, then coordinate range (each 48-byte big-endian block < q, all three flag bits cleared first), "
              "then for compressed input point recovery from x, then (checked) curve equation and subgroup membership, in this order of rejection; "
              "every index, slice read and unwrap() is proved safe (no panic). The subgroup / curve predicates are those of unit scalar (C07).",
        not_covered=["get_point_from_x (sqrt and choice of root) enters through its contract gpfx (C18 scope)",
                     "the text of the coordinate name inside CoordinateDecodingError", "PrimeFieldRepr::read_be and Fq::from_repr enter through contracts proved elsewhere: read_be over a byte slice by the kani:limbs harnesses read_be / read_be_short, from_repr in unit mont (C08)"],
        assumptions=["D1 read_be on a byte slice consumes 48 bytes big-endian (proved: kani:limbs harness read_be, C08)", "Fq::from_repr: Ok iff value < q (proved in unit mont, C08)", A['A3'], A['TOOLS'],
                     "rewrites R5 (map_err + ? -> match/return; iter().all -> verified helper all_zero)"],
    ),
    'C19': dict(
        standins=['serdes_streams'],
        units_quick=['serdes', 'serout', 'codec'], units_thorough=['serdes', 'serout', 'codec', 'encode', 'scalar'], timeout=1800,
        claim="reading side, points: deserialize for G1, G2, G1Affine, G2Affine (real generic bodies over a byte-stream reader): on success "
              "exactly 48/96 resp. 96/192 bytes are consumed and the value is what the checked decoder of unit codec returns for exactly those bytes; "
              "truncated input, a form flag contradicting the `compressed` argument and every encoding the checked decoder rejects give an error, never a "
              "value; vec sizes and copy lengths are proved (no panic). Writing side (real generic bodies over a byte sink): G1Affine / G2Affine append exactly the point "
              "encoding enc_* of C05 (48/96 resp. 96/192 bytes), G1 / G2 append the encoding of an affine representative of the same group element, Fr appends the 32 "
              "big-endian bytes of the canonical value, Fq12 appends the twelve 48-byte big-endian coefficients in the order c0.c0.c0, c0.c0.c1, ..., c1.c2.c1 (576 bytes). "
              "Reading side, scalars and target group: Fr / Fq12 deserialize consume exactly 32 / 576 bytes on success, return the value of the big-endian blocks, and return an error "
              "for truncated input or any non-reduced block. Round-trip lemmas: reading what was written returns the value (points of the subgroup; identity -> canonical identity).",
        not_covered=["std::io::Read / Write enter through the assumed contracts of read_exact / write_all (D2); a failing writer leaves the sink unspecified",
                     "the round trip is stated as lemmas over the two contracts (decode(encode(x)) == x), not as one executable composition"],
        assumptions=["D2 Read::read_exact either fills the buffer consuming exactly its length or fails; Write::write_all appends the whole buffer or fails; Vec::append; vec![0; n]",
                     "D1 PrimeFieldRepr::write_be / read_be over streams: 8 bytes per limb, most significant first (proved for slice / Vec streams by the kani:limbs harnesses; a generic stream goes through D2)", "from_affine contracts are those proved in unit encode (C05); checked decoders those of unit codec (C04)", A['TOOLS'],
                     "rewrites R5v (alloc::vec::from_elem -> contracted stub), R5c (as_mut().copy_from_slice -> verified helper copy_into), R5t (as_ref().to_vec() -> verified helper bytes_to_vec), "
                     "R15 (`&mut reader` with reader: &mut R -> explicit reborrow, std's impl Read for &mut R)"],
    ),
    'C18': dict(
        standins=['fq2_sqrt_order'],
        units_quick=['order', 'recover', 'mont'], units_thorough=['order', 'recover', 'mont', 'ffdep', 'tower'], timeout=1800,
        claim="PARTIAL: Fq::sgn0 = parity of the canonical integer (limb-0 bit, proved with the limb-value lemma); Fq2::sgn0 = sgn0 of the first non-zero "
              "coefficient, real part first; Sgn0Result xor and negate_if exact; Ord / PartialOrd for Fq2 = lexicographic order with the u-coefficient most "
              "significant; Fq2::legendre = Legendre symbol of the norm; Fq2::sqrt (Algorithm 9, real body): the two exponent literals equal (q-3)/4 and (q-1)/2, sqrt(0) = 0, None only for non-zero input, "
              "and every returned x satisfies x^2 = e(a) * a with e(a) = 1 if alpha = -1 and e(a) = b^2 * alpha otherwise (alpha = a^((q-1)/2), b = (1 + alpha)^((q-1)/2)) - pure ring algebra over the proved contract of pow; "
              "negation flips parity and order of every non-zero y (proved from q odd); get_point_from_x returns a point on the curve with the given x "
              "whose y is the larger root iff the flag is set, or None when x^3+b has no root. "
              "Derive-generated code (unit mont, real bodies): Fq / Fr cmp = order of the canonical integers; Fq / Fr legendre = classification of x^((q-1)/2) into 0 / 1 / other; "
              "Fq::sqrt (q = 3 mod 4) returns None exactly when x^((q-1)/2) = -1 and otherwise y = x^((q+1)/4) with y^2 = x * x^((q-1)/2), "
              "the exponent literals being (q-3)/4 and (q-1)/2 (closed terms) and Field::pow (text of the pinned ff-zeroize source) being x^e by square-and-multiply over ff's BitIterator (unit ffdep).",
        not_covered=["Euler's criterion (A8) is what turns `x^((q-1)/2) in {0, 1}` into `x is a square` and the sqrt statement into y^2 = x; Fr::sqrt (Tonelli-Shanks, r = 1 mod 4) is not under contract",
                     "that e(a) = 1 whenever Algorithm 9 returns Some, and that it returns None only for non-squares (A8': Frobenius is additive and a^((q^2-1)/2) = +-1) - number theory, not proved; the stand-in fq2_sqrt_order exercises it"],
        assumptions=[A['A8'], "A8' correctness of Adj/Rodriguez-Henriquez Algorithm 9", A['D_FQ'], "(-y)^2 = y^2 in Fq2 stated as a ring fact (lemma_neg_sq2)",
                     "the ring laws of the schoolbook Fq2 product used by the sqrt proof (commutative, associative, 1 and -1 act as expected, u^2 = -1) are proved in unit order from the definitions; "
                     "the laws of powers (x^a x^b = x^(a+b), x^1 = x) are proved there for f2pow defined by recursion, and Field::pow (text of the pinned ff-zeroize source, written out at Fq2) is proved to return f2pow(x, e) for every six-limb exponent; "
                     "NEGATIVE_ONE = -1 is an axiom there (checked as a closed term in unit consts)", A['TOOLS']],
    ),
    'C15': dict(
        units_quick=['sswu', 'sswuhelp', 'order', 'consts'], units_thorough=['sswu', 'sswuhelp', 'order', 'consts', 'tower'], timeout=1800,
        claim="PARTIAL: osswu_help (real generic body instantiated at Fq and Fq2) computes u^2, xi u^2, xi^2 u^4, the projective x1 candidate "
              "(-B/A)(1 + 1/(xi^2 u^4 + xi u^2)) as x0_num/x0_den with the exceptional denominator A*xi, and numerator / denominator of g(x1); "
              "chain_pm3div4 = x^((q-3)/4) and chain_p2m9div16 = x^((q^2-9)/16) exactly (exponent tracking of the real chains); the G1 and G2 maps "
              "return (X, Y, Z) with Z = x0_den, X/Z^2 = x1 together with y^2 = g(x1) (curve equation of E', cross-multiplied) or X/Z^2 = xi u^2 x1 "
              "(G2: together with y^2 = g(x2)), Y = y Z^3, and sgn0(y) = sgn0(u) whenever y != 0.",
        not_covered=["that x1 is chosen exactly when g(x1) is a square, and the curve equation of the second candidate in G1 (Euler's criterion, A8)",
                     "that the G2 map's terminal panic is unreachable (A8; replaced by an assumed-unreachable stub)",
                     "ROOTS_OF_UNITY squared = (1, -1, -u, u) and ETAS squared = xi^3 times the four primitive 8th roots of unity ARE checked as closed terms, as are XI = 11 resp. -(2+I), A', B' of both isogenous curves and SQRT_M_XI_CUBED^2 = -11^3 ARE checked as closed terms against RFC 9380 8.8 in unit consts"],
        assumptions=[A['A8'], A['D_FQ'], "laws of fpow / f2pow (specs/fpow.vrs: ring theory)", A['TOOLS'], "rewrites R11 (slice patterns), R4 (slice loops), R9a (terminal panic)"],
    ),
    'C08': dict(
        standins=['prime_field_api'],
        units_quick=['kani:limbs', 'consts', 'mont', 'ffdep'], units_thorough=['kani:limbs', 'consts', 'mont', 'ffdep'], timeout=3000,
        technique="contract-based deductive verification: Verus contracts with generated checkpoint assertions on the fully unrolled Montgomery code of ff_derive's expansion (Fq, Fr); "
                  "contract harnesses checked by Kani/CBMC on the compiled crate for the limb layer: full 384-/256-bit input domain, loops bounded by the limb count with unwinding assertions (complete, not bounded)",
        claim="limb layer (CBMC, bit-precise, every input): for FqRepr (6 limbs) and FrRepr (4 limbs) is_zero, is_odd/is_even, add_nocarry and sub_noborrow (within their "
              "no-carry / no-borrow preconditions), div2, mul2, shr / shl by any n, num_bits, cmp (= order of the unsigned integers), From<u64>; read_be / write_be / read_le / write_le over byte slices and Vec<u8> "
              "(8 bytes per limb, most resp. least significant limb first, the cursor advances by exactly 8n bytes, the rest of the buffer is untouched, a short input is an error); ff's mac_with_carry and adc are exact; for Fq "
              "and Fr on every pair of valid (reduced) Montgomery representatives add_assign, sub_assign, negate, double give (a+b), (a-b), (-a), 2a modulo the "
              "modulus and a reduced result, is_zero exact, zero() is 0. "
              "Montgomery layer (Verus, real unrolled bodies of the derive expansion, Fq and Fr): mul_assign computes the exact 2n-limb product (schoolbook rows), square the same value by "
              "off-diagonal products, one-bit doubling and diagonal squares; mont_reduce returns a reduced res with res * 2^(64n) == input (mod q) (each round adds k_i q 2^(64i) with "
              "k_i = r_i * INV making the low limb vanish; INV * q[0] == -1 mod 2^64 and the final carry is proved 0); with mv(x) = limbs(x) * R^-1 mod q the field value: "
              "mul_assign / square give mv(a) mv(b) mod q, add_assign / sub_assign / double / negate give the sum / difference / double / negation mod q, zero() and one() are 0 and 1, "
              "is_zero and == decide mv == 0 resp. equality of values, into_repr returns the canonical integer mv(x) (< q), from_repr(r) succeeds exactly for r < q with mv == r, "
              "cmp is the order of the canonical integers; inverse (binary extended Euclid, loop invariant b * a == u * R^2 and c * a == v * R^2 mod q, kept as an opaque predicate) returns None exactly for 0 "
              "and otherwise y with mv(y) mv(x) == 1 mod q (partial correctness: termination of the Euclid loops needs q prime, A1, and is not proved). "
              "pow (ff's generic square-and-multiply, text of the pinned dependency source) returns x^e for every exponent given as limbs; legendre / Fq::sqrt as stated under C18. "
              "These are the contracts (D_FQ) every unit above the limb layer assumes of Fq / Fr.",
        not_covered=["termination of inverse (needs gcd(a, q) = 1, i.e. A1)", "Fr::sqrt (Tonelli-Shanks), random: not under contract; read/write_be/le are proved for slice / Vec streams (a generic std::io stream enters through D2)",
                     "that GENERATOR (2 resp. 7, a non-residue) generates the whole multiplicative group is not checked (needs the factorisation of the modulus minus one); its value, S = v2(modulus - 1) and ROOT_OF_UNITY = GENERATOR^t of exact order 2^S ARE checked as closed terms in unit consts, like MODULUS, R, R2, INV, B_COEFF, NEGATIVE_ONE and the from_okm shift constants (unit consts resp. by(compute) in unit mont)"],
        assumptions=["Kani 0.68 / CBMC 6.11; the unsafe transmute constructor pairing::bls12_381::transmute::{fq, fr} and mem::transmute_copy are used to move raw limbs in and out", "rustc codegen (MIR -> goto)",
                     "unit mont sees the representation type through the limb-level contracts that kani:limbs proves (lt / gt / eq / cmp = integer order, add_nocarry, sub_noborrow, mul2, is_zero, From<u64>), and ff's mac_with_carry / adc through theirs",
                     "rewrites R16 (derived comparison operators on the representation type written as the contracted methods), R17 (::ff:: paths), R18 (format! of the error message -> uninterpreted stub)", A['TOOLS']],
    ),
    'C10': dict(
        standins=['sum_of_products'],
        units_quick=['kani:window', 'msm', 'precomp'], units_thorough=['kani:window', 'msm', 'precomp', 'scalar', 'curve'], timeout=3000,
        technique="contract-based deductive verification: Verus contracts and loop invariants on the real bodies of the three multi-scalar entry points (G1 and G2); "
                  "Kani/CBMC full-domain harness for the window heuristic",
        claim="for every list of affine points and every list of four-limb scalars below 2^255 (real bodies, G1 and G2, any lengths, n = min(#points, #scalars)): "
              "sum_of_products_pippinger with every window 1..=20 returns sum_{i<n} [k_i]P_i - loop invariant `res == sum [k_i >> (bit_sequence_index+1)] P_i, all buckets are the identity`; "
              "per window the digit extraction in its three forms (inside a word / straddling two words / short last window) is proved equal to (k >> lo) mod 2^width from the limb value "
              "(bit-vector lemmas linked to integer division), bucket accumulation adds digit_i * P_i to the weighted bucket sum, and the running-sum reduction returns sum b * bucket_b and leaves "
              "every bucket the identity; no index out of bounds, no overflow, the assert! on the top bit never fires, termination; "
              "sum_of_products (default entry) = the bucket method with the window of find_pippinger_window, which is in 1..=16, equal to the documented table and monotone for every usize n (CBMC, full domain); "
              "sum_of_products_precomp_256 returns the same sum for every table satisfying the table predicate, which precomp_256 establishes (unit precomp). "
              "Sums are in the abstract group (A3): duplicates, inverse points and identities need no special case at this level; the point formulas that meet them are C01.",
        not_covered=["find_pippinger_window_via_estimate (the floating-point cost estimate the table was derived from)",
                     "scalars with bit 255 set: the bucket method panics by its documented assert (outside the property's domain)"],
        assumptions=[A['A3'], "group-level contracts of double / add_assign / add_assign_mixed are the statements of unit curve lifted through A3",
                     "std::vec::from_elem via vstd's specification; usize is 64 bits (global size_of usize == 8)",
                     "rewrites R3 (for i in (a..b).rev()), R9 (panic -> unreachable obligation), R12v (path of vec::from_elem)", "Kani 0.68 / CBMC 6.11", A['TOOLS']],
    ),
    'C13': dict(
        standins=['expand_message_hash_to_field'],
        units_quick=['okm', 'consts', 'expand'], units_thorough=['okm', 'consts', 'expand', 'mont'], timeout=1800,
        claim="expand_message (real generic bodies over a model of the digest traits in which a hasher absorbs byte strings in order and its result is a function of what it absorbed): "
              "ExpandMsgXmd::expand_message returns (b_1 || ... || b_ell)[0..len] with b_0 = H(Z_pad || msg || I2OSP(len, 2) || 0 || DST || I2OSP(|DST|, 1)), b_1 = H(b_0 || 1 || DST'), "
              "b_i = H(strxor(b_0, b_(i-1)) || i || DST') for every message, every tag of at most 255 bytes, every length below 2^16 with at most 255 blocks, any hash (output and block size as type-level lengths); "
              "ExpandMsgXof::expand_message returns XOF(msg || I2OSP(len, 2) || DST || I2OSP(|DST|, 1), len); no index out of bounds, no overflow. "
              "The reductions and the block splitting: Fq::from_okm(b) = be(b) mod q for every 64-byte block and Fr::from_okm(b) = be(b) mod r for every "
              "48-byte block (real bodies: two zero-padded big-endian reads, multiplication by the crate's constant 2^256 resp. 2^192, addition; the unwrap()s are "
              "proved safe because each half is below 2^256 < q resp. 2^192 < r); Fq2::from_ro takes the real part from bytes 0..64 and the u-coefficient from "
              "64..128; hash_to_field returns `count` elements, element i obtained from bytes [i*L, (i+1)*L) of expand_message(msg, dst, count*L) (generic real "
              "body, loop invariant; requires count*L not to overflow usize).",
        not_covered=["the abort for more than 255 blocks (Verus has no exceptional postcondition: the abort is the precondition `ell <= 255` of the contract; the stand-in observes the panic)",
                     "the hash functions themselves (sha2 / sha3 crates, D3): `hash` and `xof` are uninterpreted functions of the absorbed bytes", "the values of the constants F_2_256 / F_2_192 are closed-term facts: stated as axioms in unit okm and proved (by compute, from the same limbs) in unit consts"],
        assumptions=["D1/D2 contracts of read_be over Cursor/Chain readers, GenericArray slicing and typenum lengths (assumed stubs)", A['D_FQ'], A['TOOLS'],
                     "rewrite R12 (range indexing on GenericArray / Vec -> named accessors)",
                     "unit expand: D3 the digest traits (Digest / BlockInput / ExtendableOutput + Input + Default) are modelled as absorb-then-result machines; GenericArray default / as_ref / full-range index, Vec::with_capacity / extend_from_slice and "
                     "range indexing through contracted stubs; rewrite R5x: the strxor expression `b_0.iter().zip(&b_vals[a..b]).enumerate().for_each(|(jdx, (b0val, bi1val))| tmp[jdx] = b0val ^ bi1val)` is matched textually and replaced by the contracted helper xor_into"],
    ),
    'C16': dict(
        units_quick=['symx:iso'], units_thorough=['symx:iso'], timeout=1800, category='other',
        technique="symbolic execution of the real eval_iso / isogeny_map bodies (compiled by rustc against a symbolic commutative ring; loops have constant bounds) + exact factored polynomial normal form against the rational map; NOT a Verus/Kani proof",
        claim="eval_iso with the G1 (11-isogeny: 12/11/16/16 coefficients) and G2 (3-isogeny: 4/3/4/4) tables computes, for every (X, Y, Z) over any commutative ring "
              "and any coefficient values, Z' = xden*yden, X' = xnum*yden*Z', Y' = Z'^2*ynum*xden with xnum = H_xnum(X,Z), xden = H_xden(X,Z) Z^2, ynum = H_ynum(X,Z) Y, "
              "yden = H_yden(X,Z) Z^3 and H_k(X,Z) = sum_i k_i X^i Z^(2(n-i)): i.e. X'/Z'^2 = x_num(x)/x_den(x), Y'/Z'^3 = y*y_num(x)/y_den(x) at x = X/Z^2, y = Y/Z^3, "
              "independently of the representative, and Z = 0 or a zero of a denominator gives Z' = 0. Decided by symbolic execution of the real body and polynomial identity, "
              "not by a deductive verifier (Verus could not be given a contract for the three &mut references returned by as_tuple_mut).",
        not_covered=["the coefficient tables are not compared digit by digit with RFC 9380 appendix E (no copy offline); instead the polynomial identity `image of E' lies on E` is checked exactly over the crate's own tables (a wrong entry breaks it)", "homomorphism law (A9)",
                     "trusted: rustc's semantics of the sliced text, vx/symx_base.rs, vx/ring.py (exact integer polynomial arithmetic)"],
        assumptions=["the field operations used by eval_iso (zero, square, mul_assign, add_assign) are those of a commutative ring (C08/C09 contracts)", "A9"],
    ),
}

HOOK_COMMITS = []
NOT_APPLICABLE = {
    'C03': "bilinearity, non-degeneracy and agreement with the textbook optimal-ate pairing are statements about the divisor-theoretic Miller function; a contract on "
           "miller_loop / prepare would have to carry that theory (no such library exists for Verus, and the solver cannot derive it), and the loop itself is outside the "
           "Verus subset as written (it is verified after rule-based desugaring under C11, for its product structure only); CBMC cannot carry a single Fq12 multiplication. The parts of the "
           "pairing that contracts do reach are claimed under C12 (final exponentiation == f^(3(q^12-1)/r)), C11 (the joint loop is the product of the single-pair loops) and C09 (tower arithmetic)",
    'C20': "quantifies over thread schedules and call histories; Kani has no thread support and the Verus units contain no shared state to attach "
           "permissions to (functional postconditions give per-call determinism only, which is recorded under the other properties, not claimed here)",
}


# where the contract of a stub (external_body) used inside one unit is established - shown next to each entry of coverage.trusted_base.
# Patterns are matched against `Type::name` of the stub; the first match wins; no match = assumed (listed under the property's assumptions).
PROVENANCE = [
    (r'^external_body:ax_neg_one_value$', 'value of the constant: checked as a closed term in unit consts'),
    (r'^external_body:ax_|^external_body:lemma_', 'axiom / lemma statement of the specification layer (see the property\'s assumptions)'),
    (r'^uninterp:', 'uninterpreted specification symbol'),
    (r'^external_body:(Fq|Fr)::(add_assign|sub_assign|mul_assign|square|negate|double|zero|one|is_zero|eq|cmp|partial_cmp|into_repr|from_repr|inverse|legendre|pow)$', 'contract proved in unit mont (C08)'),
    (r'^external_body:Fq::sqrt$', 'proved in unit mont up to Euler\'s criterion (A8)'),
    (r'^external_body:(FqRepr|FrRepr)::(read_be|write_be)$', 'byte order proved by the kani:limbs harnesses (C08); a generic stream enters through D2'),
    (r'^external_body:(FqRepr|FrRepr)::', 'limb-level contract proved by unit kani:limbs (C08)'),
    (r'^external_body:(mac_with_carry|adc)$', 'proved by unit kani:limbs (C08)'),
    (r'^external_body:BitIterator::', 'contract proved in unit ffdep on the pinned ff-zeroize source'),
    (r'^external_body:(Fq2|Fq6|Fq12)::(sqrt)$', 'unit order: algebraic contract; the rest is A8\''),
    (r'^external_body:Fq2::(pow)$', 'contract proved in unit order'),
    (r'^external_body:(Fq2|Fq6|Fq12)::', 'contract proved in unit tower (C09)'),
    (r'^external_body:(G1|G2)::(double|add_assign|sub_assign|add_assign_mixed|sub_assign_mixed|negate|into_affine|is_zero|is_normalized|zero|eq)$', 'group-level statement of the contract proved in unit curve (C01), through A3'),
    (r'^external_body:(G1Affine|G2Affine)::(into_projective|is_zero|negate|zero)$', 'unit curve (C01), through A3'),
    (r'^external_body:(G1Affine|G2Affine)::(is_on_curve|in_subgroup|mul|mul_bits|scale_by_cofactor)$', 'contract proved in unit scalar (C07 / C02)'),
    (r'^external_body:(G1Affine|G2Affine)::get_point_from_x$', 'contract proved in unit recover (C18)'),
    (r'^external_body:(G1Affine|G2Affine)::find_pippinger_window$', 'proved by unit kani:window (C10)'),
    (r'^external_body:(G1Affine|G2Affine)::sum_of_products_pippinger$', 'contract proved in unit msm (C10)'),
    (r'^external_body:G[12](Compressed|Uncompressed)::from_affine$', 'contract proved in unit encode (C05)'),
    (r'^external_body:G[12](Compressed|Uncompressed)::into_affine(_unchecked)?$', 'contract proved in unit codec (C04)'),
    (r'^external_body:(G1|G2)::(clear_h|isogeny_map|osswu_map)$', 'contracts of units cofactor (C17) / symx:iso (C16) / sswu (C15)'),
    (r'^external_body:(G1Affine|G2Affine)::get_coeff_b$|^external_body:Fr::char$|^external_body:ax_neg_one_value$', 'value of the constant: checked as a closed term in unit consts'),
    (r'^external_body:(doubling_step|addition_step)$|^external_body:G2Affine::into$', 'uncontracted stub: only that it returns is assumed (its value is C03\'s subject and is not used by the C11 contract)'),
    (r'^external_body:Sgn0Result::eq$', 'derived PartialEq of a field-less enum: structural equality'),
    (r'^external_body:hash_to_field$', 'block splitting proved in unit okm (C13); expand_message itself only through the labelled stand-in'),
    (r'^external_body:Fq::(negate_if|sgn0)$|^external_body:Sgn0Result::bitxor$', 'contract proved in unit order (C18)'),
    (r'^external_body:osswu_help_fq2?$', 'contract proved in unit sswuhelp (C15)'),
    (r'^external_body:sswu_no_root$', 'A8: the terminal panic of the G2 SSWU map is unreachable (assumed)'),
    (r'^external_body:GenericArray::|^external_body:U\d+::to_usize$', 'generic_array / typenum (dependency D3): lengths and slicing assumed'),
    (r'^external_body:Vec::write_all$', 'std::io::Write for Vec<u8> (D2w): appends, assumed'),
    (r'^external_body:Error::new$|^external_body:repr_to_string$|^external_body:vec_from_elem$', 'error construction / allocation helper without a functional contract'),
]


def provenance(unit, entry):
    import re as _re
    if _re.search(r'^external_body:lem_G2', entry) and unit == 'curve':
        return '  [transfer T1: same macro text as the G1 function whose lemma Verus proves; the identity is re-checked by the generator with exact integers]'
    if _re.search(r'^external_body:lem_', entry):
        return '  [generated lemma: statement in the main file, proof checked by Verus in a lemma file of the same unit]'
    if _re.search(r'^external_body:j[12]ax_', entry):
        return '  [A3: bridge from the proved chord-tangent relations to the abstract group]'
    for pat, note in PROVENANCE:
        if _re.search(pat, entry):
            return '  [' + note + ']'
    if entry.startswith('external_body:'):
        return '  [assumed: see the assumptions of the property]'
    return ''
