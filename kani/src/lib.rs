// Kani harnesses: limb-level contracts of the derive-generated representation types on the *compiled* crate
// (bit-precise, full input domain; loops are bounded by the limb count, so with unwinding assertions on each
// harness is a complete proof, not a bounded stand-in).  Postconditions are written against a schoolbook
// reference on u128 words (the unsigned-integer semantics the property C08 states).
#![allow(unused)]
extern crate ff_zeroize as ff;
extern crate pairing_plus as pairing;

#[cfg(kani)]
mod proofs {
    use ff::{Field, PrimeField, PrimeFieldRepr};
    use pairing::bls12_381::{Fq, FqRepr, Fr, FrRepr};

    // ---- reference semantics: little-endian 64-bit words as an unsigned integer -------------------------
    fn ref_add<const N: usize>(a: &[u64; N], b: &[u64; N]) -> ([u64; N], bool) {
        let mut r = [0u64; N];
        let mut c: u128 = 0;
        let mut i = 0;
        while i < N { let t = a[i] as u128 + b[i] as u128 + c; r[i] = t as u64; c = t >> 64; i += 1; }
        (r, c != 0)
    }
    fn ref_sub<const N: usize>(a: &[u64; N], b: &[u64; N]) -> ([u64; N], bool) {
        let mut r = [0u64; N];
        let mut bw: u128 = 0;
        let mut i = 0;
        while i < N { let t = (a[i] as u128).wrapping_sub(b[i] as u128).wrapping_sub(bw); r[i] = t as u64; bw = (t >> 127) & 1; i += 1; }
        (r, bw != 0)
    }
    fn ref_lt<const N: usize>(a: &[u64; N], b: &[u64; N]) -> bool { ref_sub(a, b).1 }
    fn same<const N: usize>(a: &[u64; N], b: &[u64; N]) -> bool { let mut e = true; let mut i = 0; while i < N { if a[i] != b[i] { e = false; } i += 1; } e }
    fn ref_is_zero<const N: usize>(a: &[u64; N]) -> bool { let mut z = true; let mut i = 0; while i < N { if a[i] != 0 { z = false; } i += 1; } z }

    macro_rules! repr_harnesses {
        ($m:ident, $R:ident, $N:expr) => {
            mod $m {
                use super::*;
                // ---- byte order of read / write (D1): 8 bytes per limb, the most significant limb first for _be, the least for _le; slices as streams
                #[kani::proof] #[kani::unwind(9)]
                fn read_be() {
                    let bytes: [u8; 8 * $N] = kani::any();
                    let mut r = $R([0u64; $N]);
                    let mut rd: &[u8] = &bytes[..];
                    let res = r.read_be(&mut rd);
                    assert!(res.is_ok()); assert!(rd.len() == 0);
                    let mut i = 0; while i < $N { let mut w = [0u8; 8]; let mut j = 0; while j < 8 { w[j] = bytes[8 * i + j]; j += 1; } assert!(r.0[$N - 1 - i] == u64::from_be_bytes(w)); i += 1; }
                }
                #[kani::proof] #[kani::unwind(9)]
                fn write_be_cursor() {
                    let a: [u64; $N] = kani::any(); let fill: u8 = kani::any();
                    let mut buf = [fill; 8 * $N + 3];
                    { let mut w: &mut [u8] = &mut buf[..]; let res = $R(a).write_be(&mut w); assert!(res.is_ok()); assert!(w.len() == 3); }
                    let mut i = 0; while i < $N { let e = a[$N - 1 - i].to_be_bytes(); let mut j = 0; while j < 8 { assert!(buf[8 * i + j] == e[j]); j += 1; } i += 1; }
                    assert!(buf[8 * $N] == fill && buf[8 * $N + 1] == fill && buf[8 * $N + 2] == fill);
                }
                #[kani::proof] #[kani::unwind(9)]
                fn write_be_vec() {
                    let a: [u64; $N] = kani::any();
                    let mut v: Vec<u8> = Vec::new(); v.push(7u8);
                    assert!($R(a).write_be(&mut v).is_ok());
                    assert!(v.len() == 8 * $N + 1 && v[0] == 7u8);
                    let mut i = 0; while i < $N { let e = a[$N - 1 - i].to_be_bytes(); let mut j = 0; while j < 8 { assert!(v[1 + 8 * i + j] == e[j]); j += 1; } i += 1; }
                }
                #[kani::proof] #[kani::unwind(50)]
                fn read_le_write_le() {
                    let bytes: [u8; 8 * $N] = kani::any();
                    let mut r = $R([0u64; $N]);
                    let mut rd: &[u8] = &bytes[..];
                    assert!(r.read_le(&mut rd).is_ok());
                    let mut i = 0; while i < $N { let mut w = [0u8; 8]; let mut j = 0; while j < 8 { w[j] = bytes[8 * i + j]; j += 1; } assert!(r.0[i] == u64::from_le_bytes(w)); i += 1; }
                    let mut out = [0u8; 8 * $N];
                    { let mut w: &mut [u8] = &mut out[..]; assert!(r.write_le(&mut w).is_ok()); }
                    let mut k = 0; while k < 8 * $N { assert!(out[k] == bytes[k]); k += 1; }
                }
                #[kani::proof] #[kani::unwind(9)]
                fn read_be_short() {
                    let bytes: [u8; 8 * $N - 1] = kani::any();
                    let mut r = $R([0u64; $N]);
                    let mut rd: &[u8] = &bytes[..];
                    assert!(r.read_be(&mut rd).is_err());
                }
                #[kani::proof] #[kani::unwind(8)]
                fn is_zero() { let a: [u64; $N] = kani::any(); let r = $R(a); assert!(r.is_zero() == ref_is_zero(&a)); }
                #[kani::proof] #[kani::unwind(8)]
                fn parity() { let a: [u64; $N] = kani::any(); let r = $R(a); assert!(r.is_odd() == (a[0] % 2 == 1)); assert!(r.is_even() == !r.is_odd()); }
                #[kani::proof] #[kani::unwind(8)]
                fn add_nocarry() {
                    let a: [u64; $N] = kani::any(); let b: [u64; $N] = kani::any();
                    let (s, carry) = ref_add(&a, &b);
                    kani::assume(!carry);                       // the documented precondition
                    let mut r = $R(a); r.add_nocarry(&$R(b));
                    assert!(same(&r.0, &s));
                }
                #[kani::proof] #[kani::unwind(8)]
                fn sub_noborrow() {
                    let a: [u64; $N] = kani::any(); let b: [u64; $N] = kani::any();
                    let (s, borrow) = ref_sub(&a, &b);
                    kani::assume(!borrow);
                    let mut r = $R(a); r.sub_noborrow(&$R(b));
                    assert!(same(&r.0, &s));
                }
                #[kani::proof] #[kani::unwind(8)]
                fn div2_mul2() {
                    let a: [u64; $N] = kani::any();
                    let mut r = $R(a); r.div2();
                    let mut i = 0;
                    while i < $N { let hi = if i + 1 < $N { a[i + 1] << 63 } else { 0 }; assert!(r.0[i] == (a[i] >> 1) | hi); i += 1; }
                    let mut m = $R(a); m.mul2();
                    let mut i = 0;
                    while i < $N { let lo = if i > 0 { a[i - 1] >> 63 } else { 0 }; assert!(m.0[i] == (a[i] << 1) | lo); i += 1; }
                }
                #[kani::proof] #[kani::unwind(8)]
                fn cmp_is_integer_order() {
                    let a: [u64; $N] = kani::any(); let b: [u64; $N] = kani::any();
                    let o = $R(a).cmp(&$R(b));
                    let lt = ref_lt(&a, &b); let gt = ref_lt(&b, &a);
                    assert!((o == core::cmp::Ordering::Less) == lt);
                    assert!((o == core::cmp::Ordering::Greater) == gt);
                    assert!((o == core::cmp::Ordering::Equal) == same(&a, &b));
                    // the operators the derived field code uses (`<`, `>`, `==`, `!=` on the representation type)
                    assert!(($R(a) < $R(b)) == lt); assert!(($R(a) > $R(b)) == gt);
                }
                #[kani::proof] #[kani::unwind(50)]
                fn eq_operator() {
                    // derived PartialEq on the limb array (a byte-wise comparison after codegen: bounded by 8 bytes per limb)
                    let a: [u64; $N] = kani::any(); let b: [u64; $N] = kani::any();
                    assert!(($R(a) == $R(b)) == same(&a, &b)); assert!(($R(a) != $R(b)) == !same(&a, &b));
                }
                #[kani::proof] #[kani::unwind(8)]
                fn shifts() {
                    let a: [u64; $N] = kani::any(); let n: u32 = kani::any();
                    kani::assume(n <= 64 * $N + 3);
                    let mut r = $R(a); r.shr(n);
                    let mut l = $R(a); l.shl(n);
                    // bit i of (a >> n) is bit i+n of a; bit i of (a << n) is bit i-n of a (checked on one symbolic bit position)
                    let i: usize = kani::any(); kani::assume(i < 64 * $N);
                    let bit = |w: &[u64; $N], k: usize| -> bool { (w[k / 64] >> (k % 64)) & 1 == 1 };
                    let src = i + n as usize;
                    assert!(bit(&r.0, i) == (src < 64 * $N && bit(&a, src)));
                    assert!(bit(&l.0, i) == (i >= n as usize && bit(&a, i - n as usize)));
                }
                #[kani::proof] #[kani::unwind(8)]
                fn num_bits() {
                    let a: [u64; $N] = kani::any();
                    let nb = $R(a).num_bits() as usize;
                    assert!(nb <= 64 * $N);
                    // nb is the position of the highest set bit + 1 (0 for zero)
                    let i: usize = kani::any(); kani::assume(i < 64 * $N);
                    let bit = (a[i / 64] >> (i % 64)) & 1 == 1;
                    if i >= nb { assert!(!bit); }
                    if nb > 0 && i == nb - 1 { assert!(bit); }
                }
                #[kani::proof] #[kani::unwind(8)]
                fn from_u64() { let v: u64 = kani::any(); let r = $R::from(v); assert!(r.0[0] == v); let mut i = 1; while i < $N { assert!(r.0[i] == 0); i += 1; } }
            }
        };
    }
    // ---- field operations on raw (Montgomery) limbs: x~ = xR mod q, so +, -, negation, doubling of representatives
    //      modulo q are the field operations; precondition = the type invariant repr < modulus -------------------
    macro_rules! field_harnesses {
        ($m:ident, $F:ident, $R:ident, $N:expr, $tr:path) => {
            mod $m {
                use super::*;
                fn modulus() -> [u64; $N] { $F::char().0 }
                fn mk(a: [u64; $N]) -> $F { unsafe { $tr($R(a)) } }
                fn raw(x: &$F) -> [u64; $N] { unsafe { core::mem::transmute_copy::<$F, [u64; $N]>(x) } }
                fn any_valid() -> [u64; $N] { let a: [u64; $N] = kani::any(); kani::assume(ref_lt(&a, &modulus())); a }
                #[kani::proof] #[kani::unwind(8)]
                fn add_assign() {
                    let q = modulus(); let a = any_valid(); let b = any_valid();
                    let (s, c) = ref_add(&a, &b);
                    assert!(!c);                                    // a + b fits: the modulus leaves a spare bit
                    let exp = if ref_lt(&s, &q) { s } else { ref_sub(&s, &q).0 };
                    let mut x = mk(a); x.add_assign(&mk(b));
                    assert!(same(&raw(&x), &exp)); assert!(ref_lt(&raw(&x), &q));
                }
                #[kani::proof] #[kani::unwind(8)]
                fn sub_assign() {
                    let q = modulus(); let a = any_valid(); let b = any_valid();
                    let exp = if ref_lt(&a, &b) { ref_sub(&ref_add(&a, &q).0, &b).0 } else { ref_sub(&a, &b).0 };
                    let mut x = mk(a); x.sub_assign(&mk(b));
                    assert!(same(&raw(&x), &exp)); assert!(ref_lt(&raw(&x), &q));
                }
                #[kani::proof] #[kani::unwind(8)]
                fn negate_double_is_zero() {
                    let q = modulus(); let a = any_valid();
                    let mut x = mk(a); x.negate();
                    let exp = if ref_is_zero(&a) { a } else { ref_sub(&q, &a).0 };
                    assert!(same(&raw(&x), &exp)); assert!(ref_lt(&raw(&x), &q));
                    let mut d = mk(a); d.double();
                    let (s, c) = ref_add(&a, &a);
                    assert!(!c);
                    let expd = if ref_lt(&s, &q) { s } else { ref_sub(&s, &q).0 };
                    assert!(same(&raw(&d), &expd)); assert!(ref_lt(&raw(&d), &q));
                    assert!(mk(a).is_zero() == ref_is_zero(&a));
                    assert!(ref_is_zero(&raw(&$F::zero())));
                }
            }
        };
    }
    // ---- ff's limb helpers (the contracts unit `mont` builds on): exact on the whole input domain ----------------------
    mod limb_helpers {
        #[kani::proof]
        fn mac_with_carry() {
            let a: u64 = kani::any(); let b: u64 = kani::any(); let c: u64 = kani::any(); let c0: u64 = kani::any();
            let mut carry = c0;
            let r = ff::mac_with_carry(a, b, c, &mut carry);
            // a + b*c + c0 <= (2^64-1) + (2^64-1)^2 + (2^64-1) = 2^128 - 1: exact in u128
            let t = (a as u128) + (b as u128) * (c as u128) + (c0 as u128);
            assert!(((carry as u128) << 64) + (r as u128) == t);
            assert!(r as u128 == t % (1u128 << 64)); assert!(carry as u128 == t / (1u128 << 64));
        }
        #[kani::proof]
        fn adc() {
            let a: u64 = kani::any(); let b: u64 = kani::any(); let c0: u64 = kani::any();
            let mut carry = c0;
            let r = ff::adc(a, b, &mut carry);
            assert!(((carry as u128) << 64) + (r as u128) == (a as u128) + (b as u128) + (c0 as u128));
        }
    }
    // ---- Pippenger window heuristic (C10): for every number of components, both groups --------------------------
    mod pippenger_window {
        use pairing::bls12_381::{G1Affine, G2Affine};
        use pairing::CurveAffine;
        const TABLE: [(usize, usize); 16] = [(1, 1), (2, 2), (20, 3), (43, 4), (105, 5), (239, 6), (578, 7), (1258, 8), (3464, 9), (6492, 10),
                                             (17146, 11), (33676, 12), (60319, 13), (218189, 14), (303280, 15), (543651, 16)];
        fn spec(n: usize) -> usize { let mut w = 1; let mut i = 0; while i < 16 { if TABLE[i].0 <= n { w = TABLE[i].1; } i += 1; } w }
        #[kani::proof] #[kani::unwind(18)]
        fn g1_window() {
            let n: usize = kani::any(); let m: usize = kani::any();
            let w = <G1Affine as CurveAffine>::find_pippinger_window(n);
            assert!(1 <= w && w <= 16);
            assert!(w == spec(n));
            kani::assume(n <= m);
            assert!(w <= <G1Affine as CurveAffine>::find_pippinger_window(m));     // monotone
        }
        #[kani::proof] #[kani::unwind(18)]
        fn g2_window() {
            let n: usize = kani::any();
            let w = <G2Affine as CurveAffine>::find_pippinger_window(n);
            assert!(1 <= w && w <= 16);
            assert!(w == spec(n));
        }
    }
    field_harnesses!(fq_field, Fq, FqRepr, 6, pairing::bls12_381::transmute::fq);
    field_harnesses!(fr_field, Fr, FrRepr, 4, pairing::bls12_381::transmute::fr);
    repr_harnesses!(fq_repr, FqRepr, 6);
    repr_harnesses!(fr_repr, FrRepr, 4);
}
