"""Engine SX (used for C16 only): symbolic execution of the real eval_iso / isogeny_map bodies, compiled by rustc against
a symbolic commutative ring (vx/symx_base.rs), and comparison of the resulting expression DAGs with the projective
rational map written from the property statement, as *factored* polynomial normal forms (Python, exact integers).
This is not discharged by Verus: the trusted base is rustc's semantics of the sliced text, symx_base.rs and vx/ring.py."""
import os, re, json, time, random
from . import driver, ring
from .rs import AnchorLost
from .weave import Unsupported
from .unit import run_symx, VERIF

SYMX_ENV = r'''
pub trait Field: Sized + Copy + PartialEq {
    fn zero() -> Self; fn one() -> Self; fn is_zero(&self) -> bool; fn square(&mut self); fn double(&mut self); fn negate(&mut self);
    fn mul_assign(&mut self, o: &Self); fn add_assign(&mut self, o: &Self); fn sub_assign(&mut self, o: &Self); fn inverse(&self) -> Option<Self>;
}
impl Field for Fq {
    fn zero() -> Self { Fq::zero() }
    fn one() -> Self { Fq::one() }
    fn is_zero(&self) -> bool { Fq::is_zero(self) }
    fn square(&mut self) { Fq::square(self) }
    fn double(&mut self) { Fq::double(self) }
    fn negate(&mut self) { Fq::negate(self) }
    fn mul_assign(&mut self, o: &Self) { Fq::mul_assign(self, o) }
    fn add_assign(&mut self, o: &Self) { Fq::add_assign(self, o) }
    fn sub_assign(&mut self, o: &Self) { Fq::sub_assign(self, o) }
    fn inverse(&self) -> Option<Self> { Fq::inverse(self) }
}
pub trait CurveProjective: Sized {
    type Base: Field;
    fn as_tuple(&self) -> (&Self::Base, &Self::Base, &Self::Base);
    unsafe fn as_tuple_mut(&mut self) -> (&mut Self::Base, &mut Self::Base, &mut Self::Base);
}
#[derive(Clone, Copy, Debug)] pub struct Pt { pub x: Fq, pub y: Fq, pub z: Fq }
impl CurveProjective for Pt {
    type Base = Fq;
    fn as_tuple(&self) -> (&Fq, &Fq, &Fq) { (&self.x, &self.y, &self.z) }
    unsafe fn as_tuple_mut(&mut self) -> (&mut Fq, &mut Fq, &mut Fq) { (&mut self.x, &mut self.y, &mut self.z) }
}
fn table(name: &str, n: usize) -> Vec<Fq> { (0..n).map(|i| Fq::fresh(&format!("{}_{}", name, i))).collect() }
'''


def table_lens(src, mod):
    out = {}
    for nm in ('XNUM', 'XDEN', 'YNUM', 'YDEN'):
        t = src.find_const(mod, nm)
        m = re.search(r'const ' + nm + r':\s*\[\s*\w+\s*;\s*(\d+)\s*\]', t)
        if not m:
            raise AnchorLost(f"anchor lost: length of {mod}::{nm}")
        out[nm] = int(m.group(1))
    return out


def factored(dag, i):
    """product of atoms: flatten mul nodes; an atom is a leaf or a non-mul node given by its polynomial normal form"""
    atoms = []
    stack = [i]
    while stack:
        j = stack.pop()
        n = dag.nodes[j]
        if n[0] == 'mul':
            stack += [n[1], n[2]]
        else:
            atoms.append(dag.poly(j).txt())
    return sorted(atoms)


def run(group=None):
    src, th = driver.expand()
    work = os.path.join(driver.OUT, 'work', 'iso')
    t0 = time.time()
    sig, body = src.fn_parts(src.find_fn('isogeny', '', 'eval_iso'))
    alias = "type CoordT<PtT> = <PtT as CurveProjective>::Base;"
    results = []
    prog = [open(os.path.join(VERIF, 'vx', 'symx_base.rs')).read(), SYMX_ENV, alias, sig + ' ' + body]
    runs = []
    lens = {}
    for g, mod in (('G1', 'g1'), ('G2', 'g2')):
        mods = [it for it in src.index() if it['kind'] == 'fn' and 'isogeny_map' in it['header'] and any(mod == (re.search(r'mod (\w+)', h) or [None, None])[1] for h in it['path']) and any('isogeny' in h for h in it['path'])]
        if len(mods) != 1:
            raise AnchorLost(f"anchor lost: isogeny_map for {g}")
        msig, mbody = src.fn_parts(mods[0])
        L = table_lens(src, mod)
        lens[g] = L
        mb = re.sub(r'\bself\b', '&mut p', mbody)
        prog.append(f"""fn run_{g}() -> String {{ explore("{g}_isogeny_map", || {{
    let XNUM = table("XNUM", {L['XNUM']}); let XDEN = table("XDEN", {L['XDEN']}); let YNUM = table("YNUM", {L['YNUM']}); let YDEN = table("YDEN", {L['YDEN']});
    let mut p = Pt {{ x: Fq::fresh("X"), y: Fq::fresh("Y"), z: Fq::fresh("Z") }};
    {mb}
    format!("{{{{\\"code\\":[{{}},{{}},{{}}]}}}}", p.x.s.0, p.y.s.0, p.z.s.0) }}) }}""")
        runs.append(g)
    prog.append("fn main() { let outs: Vec<String> = vec![" + ", ".join(f"run_{g}()" for g in runs) + "]; println!(\"{{\\\"jobs\\\":[{}],\\\"nodes\\\":{}}}\", outs.join(\",\"), dump_nodes()); }")
    res = run_symx(work, 'iso', "\n".join(prog))
    dag = ring.Dag(res['nodes'])
    V = ring.Poly.var
    obligations = []
    for j in res['jobs']:
        g = j['fn'].split('_')[0]
        L = lens[g]
        # ---- the projective rational map, from the property statement (RFC 9380 appendix E, homogenised with Z^2):
        #   H_k(X, Z) = sum_i k_i X^i Z^(2(n-i)),   xnum = H_xnum, xden = H_xden * Z^2, ynum = H_ynum * Y, yden = H_yden * Z^3
        #   Z' = xden * yden,  X' = xnum * yden * Z',  Y' = Z'^2 * ynum * xden
        def H(name):
            n = L[name] - 1
            p = ring.Poly()
            for i in range(n + 1):
                t = V(f"{name}_{i}")
                for _ in range(i):
                    t = t * V('X')
                for _ in range(2 * (n - i)):
                    t = t * V('Z')
                p = p + t
            return p.txt()
        hxn, hxd, hyn, hyd = H('XNUM'), H('XDEN'), H('YNUM'), H('YDEN')
        zden = [hxd, 'Z', 'Z', hyd, 'Z', 'Z', 'Z']                                  # Z' = xden * yden
        spec = dict(z=sorted(zden), x=sorted([hxn, hyd, 'Z', 'Z', 'Z'] + zden), y=sorted(zden + zden + [hyn, 'Y', hxd, 'Z', 'Z']))
        if len(j['paths']) != 1:
            # extra branches in the code: every path must still equal the map (checked per path below)
            pass
        for pi, p in enumerate(j['paths']):
            cx, cy, cz = p['outs']['code']
            same = {nm: factored(dag, node) == spec[nm] for nm, node in (('x', cx), ('y', cy), ('z', cz))}
            tag = (f"[path {pi}]" if len(j['paths']) > 1 else '')
            if all(same.values()):
                for nm in 'xyz':
                    obligations.append(dict(name=f"{g}::isogeny_map.{nm}'" + tag, ok=True))
                continue
            # coordinates differ syntactically: look for an input (consistent with this path) where the *points* differ
            w = point_witness(dag, (cx, cy, cz), spec, L, p)
            for nm in 'xyz':
                if same[nm]:
                    obligations.append(dict(name=f"{g}::isogeny_map.{nm}'" + tag, ok=True))
                elif w is not None:
                    obligations.append(dict(name=f"{g}::isogeny_map.{nm}'" + tag, ok=False, witness=w))
                else:
                    obligations.append(dict(name=f"{g}::isogeny_map.{nm}'" + tag, ok=None,
                                            note="coordinate differs from the specified one but no input was found where the represented points differ"))
    obligations += image_on_curve(src)
    return dict(obligations=obligations, wall=time.time() - t0, cmd="rustc symx_iso.rs && ./symx_iso (real eval_iso / isogeny_map over a symbolic commutative ring) + factored normal form",
                lens=lens)


def image_on_curve(src):
    """closed-term identity over the crate's own tables: for every (x, y) with y^2 = x^3 + A'x + B' on the isogenous curve, the image
    (xnum/xden, y ynum/yden) satisfies Y^2 = X^3 + b, i.e. the polynomial  g(x) ynum^2 xden^3 - (xnum^3 + b xden^3) yden^2  vanishes identically
    (exact polynomial arithmetic modulo q, coefficient fields Fq and Fq2).  A wrong table entry breaks the identity."""
    from .refute import F1, F2, Q
    RINV = pow(1 << 384, -1, Q)

    def vals(mod, name, over):
        t = src.find_const(mod, name)
        l = [int(x.replace('u64', '').replace('_', ''), 0) for x in re.findall(r'0x[0-9a-fA-F_]+(?:u64)?', t[t.index('='):])]
        v = [sum(x << (64 * j) for j, x in enumerate(l[6 * k:6 * k + 6])) * RINV % Q for k in range(len(l) // 6)]
        return v if over == 1 else [(v[2 * k], v[2 * k + 1]) for k in range(len(v) // 2)]
    out = []
    for g, F, over, iso_mods, b in (('G1', F1, 1, 'g1', 4), ('G2', F2, 2, 'g2', (4, 4))):
        try:
            # the two `g1` / `g2` modules that hold these constants are isogeny::gN (tables) and osswu_map::gN (curve coefficients)
            tabs = {nm: vals(iso_mods, nm, over) for nm in ('XNUM', 'XDEN', 'YNUM', 'YDEN')}
            A = vals(iso_mods, 'ELLP_A', over)[0]
            B = vals(iso_mods, 'ELLP_B', over)[0]
        except Exception as e:
            out.append(dict(name=f"{g}::isogeny_image_on_curve", ok=None, note=f"constants not found: {e}"))
            continue
        zero, one = F.zero, F.one

        def padd(a, c):
            n = max(len(a), len(c))
            return [F.add(a[i] if i < len(a) else zero, c[i] if i < len(c) else zero) for i in range(n)]

        def pmul(a, c):
            r = [zero] * (len(a) + len(c) - 1)
            for i, x in enumerate(a):
                for j, y in enumerate(c):
                    r[i + j] = F.add(r[i + j], F.mul(x, y))
            return r

        def pneg(a):
            return [F.neg(x) for x in a]
        gx = [B, A, zero, one]
        xn, xd, yn, yd = tabs['XNUM'], tabs['XDEN'], tabs['YNUM'], tabs['YDEN']
        xd3 = pmul(pmul(xd, xd), xd)
        lhs = pmul(pmul(gx, pmul(yn, yn)), xd3)
        bb = b if over == 2 else b % Q
        rhs = pmul(padd(pmul(pmul(xn, xn), xn), [F.mul(bb, c) for c in xd3]), pmul(yd, yd))
        diff = padd(lhs, pneg(rhs))
        ok = all(c == zero for c in diff)
        out.append(dict(name=f"{g}::isogeny_image_on_curve", ok=ok,
                        **({} if ok else dict(witness=dict(note="the identity g(x) ynum^2 xden^3 == (xnum^3 + b xden^3) yden^2 fails for the tables in the source")))))
    return out


def _eval_node(dag, i, env, Q):
    stack = [i]
    val = {}
    while stack:
        k = stack[-1]
        if k in val:
            stack.pop(); continue
        n = dag.nodes[k]
        kids = [c for c in n[1:] if isinstance(c, int)]
        todo = [c for c in kids if c not in val]
        if todo:
            stack += todo; continue
        stack.pop()
        op = n[0]
        if op == 'v': val[k] = env.get(n[1], 0)
        elif op == 'c': val[k] = int(n[1]) % Q
        elif op == 'add': val[k] = (val[n[1]] + val[n[2]]) % Q
        elif op == 'sub': val[k] = (val[n[1]] - val[n[2]]) % Q
        elif op == 'mul': val[k] = val[n[1]] * val[n[2]] % Q
        elif op == 'neg': val[k] = (-val[n[1]]) % Q
        elif op == 'dbl': val[k] = 2 * val[n[1]] % Q
    return val[i]


# ---- univariate root finding over F_q (for branch conditions of the form  product-of-polynomials == 0) ----
def _ptrim(a):
    while a and a[-1] == 0:
        a.pop()
    return a


def _pmod(a, f, Q):
    a = a[:]
    inv = pow(f[-1], Q - 2, Q)
    while len(a) >= len(f):
        c = a[-1] * inv % Q
        if c:
            for i in range(len(f)):
                a[len(a) - len(f) + i] = (a[len(a) - len(f) + i] - c * f[i]) % Q
        a.pop()
    return _ptrim(a)


def _pmul(a, b, f, Q):
    r = [0] * (len(a) + len(b) - 1 if a and b else 0)
    for i, x in enumerate(a):
        if x:
            for j, y in enumerate(b):
                r[i + j] = (r[i + j] + x * y) % Q
    return _pmod(r, f, Q)


def _ppow(base, e, f, Q):
    r = [1]
    b = _pmod(base, f, Q)
    while e:
        if e & 1:
            r = _pmul(r, b, f, Q)
        b = _pmul(b, b, f, Q)
        e >>= 1
    return r


def _pgcd(a, b, Q):
    a, b = _ptrim(a[:]), _ptrim(b[:])
    while b:
        a, b = b, _pmod(a, b, Q)
    return a


def find_root(f, Q, rnd):
    """some root of f (coefficient list, low degree first) in F_q, or None"""
    f = _ptrim([c % Q for c in f])
    if len(f) < 2:
        return None
    if f[0] == 0:
        return 0
    xq = _ppow([0, 1], Q, f, Q)
    g = _pgcd(f, _ptrim([(c - (1 if i == 1 else 0)) % Q for i, c in enumerate(xq + [0] * (2 - len(xq)))]), Q)
    for _ in range(40):
        if len(g) < 2:
            return None
        if len(g) == 2:
            return (-g[0]) * pow(g[1], Q - 2, Q) % Q
        a = rnd.randrange(Q)
        h = _ppow([a, 1], (Q - 1) // 2, g, Q)
        h = _ptrim([(c - (1 if i == 0 else 0)) % Q for i, c in enumerate(h + [0] * (1 - len(h)))])
        d = _pgcd(g, h, Q)
        if 1 < len(d) < len(g):
            g = d if len(d) <= len(g) - len(d) + 1 else _pdiv(g, d, Q)
    return None


def _pdiv(a, f, Q):
    a = a[:]
    q = [0] * (len(a) - len(f) + 1)
    inv = pow(f[-1], Q - 2, Q)
    while len(a) >= len(f):
        c = a[-1] * inv % Q
        q[len(a) - len(f)] = c
        for i in range(len(f)):
            a[len(a) - len(f) + i] = (a[len(a) - len(f) + i] - c * f[i]) % Q
        a.pop()
    return _ptrim(q)


def cond_root_candidates(dag, path, base, rnd):
    """inputs (X, 1, 1) making a taken `== 0` branch condition true through one of its non-trivial polynomial factors"""
    Q = ring.Q
    out = []
    for c in path.get('conds', []):
        if not c['taken'] or len(c['eqs']) != 1:
            continue
        l, r = c['eqs'][0]
        if dag.nodes[r] != ['c', '0']:
            continue
        stack = [l]
        while stack:
            j = stack.pop()
            n = dag.nodes[j]
            if n[0] == 'mul':
                stack += [n[1], n[2]]
            elif n[0] not in ('v', 'c'):
                pol = dag.poly(j)
                coeffs = {}
                for mono, cf in pol.d.items():
                    deg = 0
                    val = cf
                    for name, e in mono:
                        if name == 'X':
                            deg += e
                        elif name in ('Y', 'Z'):
                            pass
                        else:
                            val = val * pow(base.get(name, 1), e, Q) % Q
                    coeffs[deg] = (coeffs.get(deg, 0) + val) % Q
                if coeffs:
                    f = [coeffs.get(i, 0) for i in range(max(coeffs) + 1)]
                    x0 = find_root(f, Q, rnd)
                    if x0 is not None:
                        out.append((x0, 1, 1))
    return out


def point_witness(dag, nodes, spec, L, path, seed=0):
    """an input mod q, consistent with the path's branch conditions, where the Jacobian point returned by the code and the
    specified point differ *as points* (cross-multiplied comparison).  Structured candidates first, then random."""
    import itertools
    rnd = random.Random(seed)
    Q = ring.Q
    tabs = [f"{nm}_{i}" for nm, n in L.items() for i in range(n)]
    base = {t: rnd.randrange(1, Q) for t in tabs}
    small = [1, Q - 1, 2, 0]
    cands = cond_root_candidates(dag, path, base, rnd) + list(itertools.product(small + [None], repeat=3)) + [(None, None, None)] * 8
    for (cx, cy, cz) in cands:
        env = dict(base)
        env['X'] = cx if cx is not None else rnd.randrange(1, Q)
        env['Y'] = cy if cy is not None else rnd.randrange(1, Q)
        env['Z'] = cz if cz is not None else rnd.randrange(1, Q)
        ok = True
        for c in path.get('conds', []):
            holds = all(_eval_node(dag, l, env, Q) == _eval_node(dag, r, env, Q) for l, r in c['eqs'])
            if holds != c['taken']:
                ok = False
                break
        if not ok:
            continue
        X1, Y1, Z1 = [_eval_node(dag, n, env, Q) for n in nodes]
        X2, Y2, Z2 = [_prod([eval_poly_txt(a_, env, Q) for a_ in spec[k]], Q) for k in 'xyz']
        if Z1 == 0 and Z2 == 0:
            continue
        same = (Z1 != 0 and Z2 != 0 and X1 * Z2 * Z2 % Q == X2 * Z1 * Z1 % Q and Y1 * pow(Z2, 3, Q) % Q == Y2 * pow(Z1, 3, Q) % Q)
        if not same:
            return dict(inputs={k: hex(env[k]) for k in ('X', 'Y', 'Z')}, code_point=[hex(X1), hex(Y1), hex(Z1)], spec_point=[hex(X2), hex(Y2), hex(Z2)],
                        note="coefficient tables instantiated with random values; the branch conditions of the executed path hold at this input; "
                             "the two Jacobian triples denote different points")
    return None


def _prod(vals, Q):
    r = 1
    for v in vals:
        r = r * v % Q
    return r


def eval_poly_txt(t, env, Q):
    # texts produced by Poly.txt(): sums of products of identifiers with integer coefficients
    expr = re.sub(r'\((\d+)int\)', r'\1', t)
    return eval(expr, {"__builtins__": {}}, dict(env)) % Q
