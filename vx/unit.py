"""A verification unit: one Verus file assembled from trusted spec text (specs/*.vrs), real code sliced
from /repo's expansion, contracts, and generated proof text; plus (optionally) a symx program that
runs the same real bodies on symbolic field elements to obtain the trees the ring tactic needs."""
import json, os, re, subprocess, time, hashlib
from .rs import Source, AnchorLost
from . import weave, ring

VERIF = os.path.dirname(os.path.dirname(os.path.abspath(__file__)))
SPECS = os.path.join(VERIF, 'specs')


def spec_text(name):
    return open(os.path.join(SPECS, name)).read()


def verus_to_rust_spec(text):
    """mechanical conversion of trusted spec text to executable Rust over symbolic ints (symx side):
    `pub open spec fn` -> `pub fn`, ghost structs get Clone/Copy."""
    text = re.sub(r'pub (open|closed) spec fn', 'pub fn', text)
    # spec-level comparison with zero becomes an oracle query (consistent with the code's is_zero decisions)
    text = re.sub(r'\bif (.+?) == (f\w*zero)\(\) \{', r'if sym_is_zero(&(\1)) {', text)
    text = re.sub(r'^pub struct', '#[derive(Clone, Copy, Debug)]\npub struct', text, flags=re.M)
    return text


class RealFn:
    def __init__(self, key, sig, body, contract, name):
        self.key, self.sig, self.body, self.contract, self.name = key, sig, body, contract, name


class Unit:
    def __init__(self, name, src):
        self.name = name
        self.src = src          # Source of the expansion
        self.parts = []         # Verus text
        self.lemmas = []        # generated lemma text
        self.symx_parts = []    # Rust text of the symx program (types, spec-level impls)
        self.symx_runs = []     # (fn label, rust snippet producing JSON)
        self.rewrites = {}
        self.functions = []     # functions under contract (real code)
        self.trusted = []       # external_body / axioms, with justification
        self.notes = []
        self.ring_jobs = {}     # label -> job description
        self.lemma_prelude = ''  # spec text the lemma files need
        self.close = ''          # text closing modules opened in parts

    # ---------------------------------------------------------------- text assembly
    def add(self, text):
        self.parts.append(text)

    def add_spec(self, fname, symx=True):
        t = spec_text(fname)
        self.parts.append(t)
        if symx:
            self.symx_parts.append(verus_to_rust_spec(t))

    def slice_fn(self, mod, impl, name):
        it = self.src.find_fn(mod, impl, name)
        sig, body = self.src.fn_parts(it)
        return sig, body

    def real_item(self, mod, kind, name_re, derive=None):
        it = self.src.find_item(mod, kind, name_re)
        t = weave.strip_attrs(self.src.text[it['start']:it['end']]).strip()
        if derive:
            t = f"#[derive({derive})]\n" + t
        return t

    def real_const(self, mod, name):
        return weave.strip_attrs(self.src.find_const(mod, name)).strip()

    def real_fn(self, mod, impl, name, contract, *, vis=None, tail=None, ghost=(), invariants=None,
                before_returns=None, ret='ret', rename=None, body_edit=None, subst=(), sig_edit=None, attrs=''):
        """emit the real function with `contract` woven in. ghost: list of (anchor_re, text, where, occurrence)."""
        n_sh = len(self.src.shadowed)
        sig, body = self.slice_fn(mod, impl, name)
        if len(self.src.shadowed) > n_sh:      # R24: the inherent namesake was sliced instead of the trait method (method resolution)
            self.rewrites['R24'] = self.rewrites.get('R24', 0) + 1
        for a, b in subst:     # R6: associated types / trait paths -> the unit's concrete names
            if a in sig or a in body:
                self.rewrites['R6'] = self.rewrites.get('R6', 0) + sig.count(a) + body.count(a)
            sig = sig.replace(a, b)
            body = body.replace(a, b)
        if sig_edit:
            sig = sig_edit(sig)
        sig, named = weave.name_ret(sig, ret)
        if named:
            self.rewrites['R7'] = self.rewrites.get('R7', 0) + 1
        if rename:
            sig = re.sub(r'\bfn\s+' + name + r'\b', 'fn ' + rename, sig, count=1)
        if vis is not None and not re.match(r'pub\b', sig):
            sig = vis + ' ' + sig
        body = weave.rewrite_map_closure(body, self.rewrites)
        body = weave.name_for_binders(body, self.rewrites)
        if body_edit:
            body = body_edit(body)
        if invariants is not None:
            body = weave.attach_loop_invariants(body, invariants, self.rewrites)
        for g in ghost:
            anchor, text = g[0], g[1]
            where = g[2] if len(g) > 2 else 'before'
            occ = g[3] if len(g) > 3 else 0
            body = weave.insert_at(body, anchor, text, where, occ)
        if before_returns:
            body = weave.insert_before_returns(body, before_returns)
        if tail:
            body = weave.insert_tail(body, tail, unit_ret=not named)
        key = f"{mod}|{impl}|{name}"
        self.functions.append(key)
        text = f"{attrs}{sig}\n{contract}\n{body}\n"
        # must-fail canary: same signature and contract, body `assert(false)`; it has to FAIL (a canary that verifies means the
        # precondition or the axioms in scope are contradictory, i.e. the real function's proof would be vacuous)
        if not hasattr(self, 'canaries'):
            self.canaries = {}
        self.canaries[text] = f"{attrs}{sig}\n{contract}\n{{ proof {{ assert(false); }} {'vstd::pervasive::unreached()' if named else ''} }}\n"
        return text

    # ---------------------------------------------------------------- output
    HEAD = ("use vstd::prelude::*;\nuse vstd::arithmetic::div_mod::*;\nuse vstd::arithmetic::mul::*;\n"
            "verus! {\n")

    def verus_text(self):
        """main file: real code + contracts; generated lemmas appear as statements only
        (external_body), each proved in one of the lemma files of lemma_files()."""
        stm = "\n".join("#[verifier::external_body]\n" + l['head'] + "{}\n" for l in self.lemmas)
        return self.HEAD + "\n".join(self.parts) + \
            "\n// ---- generated lemma statements (proved in the lemma files of this unit) ----\n" + \
            stm + self.close + "\n} // verus!\nfn main() {}\n"

    def canary_text(self):
        """the main file with every function under contract replaced by its must-fail canary, plus a canary for the axioms in scope.
        Returns (text, [line number of each canary])."""
        t = self.verus_text()
        can = getattr(self, 'canaries', {})
        for k, (orig, c) in enumerate(can.items()):
            if orig in t:
                t = t.replace(orig, f"/*CANARY{k}*/\n" + c)
        tail = self.close + "\n} // verus!\nfn main() {}\n"
        if self.close and t.endswith(tail):
            t = t[:-len(tail)] + f"/*CANARY_AX*/\nproof fn canary_axioms_in_scope() {{ assert(false); }}\n" + tail
        lines = [t.count('\n', 0, m.start()) + 1 for m in re.finditer(r'/\*CANARY\w+\*/', t)]
        return t, lines

    def lemma_files(self, nbins=12):
        """[(suffix, text)]: lemma proofs bin-packed by size; every file is self-contained"""
        todo = [l for l in self.lemmas if l.get('body')]
        if not todo:
            return []
        bins = [[] for _ in range(min(nbins, len(todo)))]
        sizes = [0] * len(bins)
        for l in sorted(todo, key=lambda l: -len(l['body'])):
            i = sizes.index(min(sizes))
            bins[i].append(l)
            sizes[i] += len(l['body']) + len(l['head'])
        out = []
        for i, b in enumerate(bins):
            if not b:
                continue
            text = self.HEAD + self.lemma_prelude + "\n" + "\n".join(l['head'] + l['body'] for l in b) + "\n} // verus!\nfn main() {}\n"
            out.append((f"lem{i}", text, [l['name'] for l in b]))
        return out

    def scan_trusted(self, text):
        """mechanical scan for assumptions in the generated file; stubs are qualified by the type of the impl block they sit in"""
        out = []
        impl_at = []                       # (position, type name) of every impl header; a stub belongs to the last impl opened before it that is still open
        for m in re.finditer(r'^impl(?:<[^>]*>)?\s+(?:[^\n{]*?\bfor\s+)?([A-Za-z0-9_]+)', text, re.M):
            # end of the impl block: matching brace of the first `{` after the header
            i = text.find('{', m.end())
            depth, j = 0, i
            while j < len(text):
                if text[j] == '{':
                    depth += 1
                elif text[j] == '}':
                    depth -= 1
                    if depth == 0:
                        break
                j += 1
            impl_at.append((m.start(), j, m.group(1)))
        for m in re.finditer(r'#\[verifier::external_body\]\s*(?:pub\s+)?(?:broadcast\s+)?(?:proof\s+|exec\s+)?(?:fn|struct|const)\s+([A-Za-z0-9_]+)', text):
            owner = ''
            for a, b, nm in impl_at:
                if a < m.start() < b:
                    owner = nm + '::'
            out.append('external_body:' + owner + m.group(1))
        for m in re.finditer(r'\b(assume|admit)\s*\(', text):
            out.append(m.group(1))
        for m in re.finditer(r'assume_specification', text):
            out.append('assume_specification')
        for m in re.finditer(r'uninterp spec fn\s+([A-Za-z0-9_]+)', text):
            out.append('uninterp:' + m.group(1))
        return out


# ---------------------------------------------------------------------------------------------
def run_symx(workdir, label, program_text):
    """compile and run a symx program with plain rustc (no cargo, no deps). returns parsed JSON."""
    os.makedirs(workdir, exist_ok=True)
    src = os.path.join(workdir, f"symx_{label}.rs")
    binp = os.path.join(workdir, f"symx_{label}")
    open(src, 'w').write(program_text)
    r = subprocess.run(['rustc', '--edition', '2018', '-A', 'warnings', '-C', 'opt-level=0', '-C', 'debuginfo=0', '-o', binp, src],
                       capture_output=True, text=True)
    if r.returncode != 0:
        raise weave.Unsupported(f"symx compile failed for {label}:\n{r.stderr[:3000]}")
    r = subprocess.run([binp], capture_output=True, text=True, timeout=300)
    if r.returncode != 0:
        raise weave.Unsupported(f"symx run failed for {label}:\n{r.stderr[:3000]}")
    return json.loads(r.stdout)


def run_verus(path, timeout=600, rlimit=None, extra=()):
    cmd = ['verus', path, '--output-json', '--time', '--num-threads', '8'] + list(extra)
    if rlimit:
        cmd += ['--rlimit', str(rlimit)]
    t0 = time.time()
    import signal
    proc = subprocess.Popen(cmd, stdout=subprocess.PIPE, stderr=subprocess.PIPE, text=True, start_new_session=True)
    try:
        out, err = proc.communicate(timeout=timeout)
        rc, to = proc.returncode, False
    except subprocess.TimeoutExpired:
        try:
            os.killpg(proc.pid, signal.SIGKILL)
        except Exception:
            pass
        try:
            out, err = proc.communicate(timeout=10)
        except Exception:
            out, err = '', ''
        rc, to = -9, True
    wall = time.time() - t0
    js = None
    try:
        i = out.index('{')
        js = json.loads(out[i:])
    except Exception:
        pass
    return dict(cmd=' '.join(cmd), rc=rc, timeout=to, wall=wall, json=js, stdout=out, stderr=err)
