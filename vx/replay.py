"""Turn a failed obligation into a replay record; where the generator produced a candidate input
(a point where the code polynomial and the spec polynomial differ mod q) run the REAL function of /repo
on it with the replay binary and compare with the specification value."""
import os, json, subprocess
from .ring import Q
from .unit import VERIF

REPLAY_DIR = os.path.join(VERIF, 'replay')
TARGET = os.path.join(VERIF, 'out', 'target-replay')


def build_replay():
    import shutil
    from . import driver
    crate, target = REPLAY_DIR, TARGET
    if os.path.realpath(driver.REPO) != '/repo':
        # a scratch tree is being checked (VERIF_REPO): the replay crate is copied next to the scratch output with its path dependency redirected
        crate, target = os.path.join(driver.OUT, 'replay-crate'), os.path.join(driver.OUT, 'target-replay')
        os.makedirs(os.path.join(crate, 'src'), exist_ok=True)
        shutil.copy(os.path.join(REPLAY_DIR, 'src', 'main.rs'), os.path.join(crate, 'src', 'main.rs'))
        open(os.path.join(crate, 'Cargo.toml'), 'w').write(open(os.path.join(REPLAY_DIR, 'Cargo.toml')).read().replace('path = "/repo"', f'path = "{driver.REPO}"'))
        if os.path.exists(os.path.join(REPLAY_DIR, 'Cargo.lock')):
            shutil.copy(os.path.join(REPLAY_DIR, 'Cargo.lock'), os.path.join(crate, 'Cargo.lock'))
    env = dict(os.environ, CARGO_TARGET_DIR=target, CARGO_NET_OFFLINE='true')
    if not os.path.exists(os.path.join(crate, 'Cargo.lock')):
        shutil.copy(os.path.join(driver.REPO, 'Cargo.lock'), os.path.join(crate, 'Cargo.lock'))
    r = subprocess.run(['cargo', 'build', '--release', '--offline'], cwd=crate, env=env, capture_output=True, text=True)
    if r.returncode != 0:
        return None, r.stderr[-2000:]
    return os.path.join(target, 'release', 'verif-replay'), ''


# ---- independent big-integer reference of the tower (used only to judge replays) -------------
def f2mul(a, b):
    return ((a[0] * b[0] - a[1] * b[1]) % Q, (a[0] * b[1] + a[1] * b[0]) % Q)


def f2add(a, b):
    return ((a[0] + b[0]) % Q, (a[1] + b[1]) % Q)


def f2nr(a):
    return f2mul(a, (1, 1))


def f6mul(a, b):
    m = f2mul
    c0 = f2add(m(a[0], b[0]), f2nr(f2add(m(a[1], b[2]), m(a[2], b[1]))))
    c1 = f2add(f2add(m(a[0], b[1]), m(a[1], b[0])), f2nr(m(a[2], b[2])))
    c2 = f2add(f2add(m(a[0], b[2]), m(a[1], b[1])), m(a[2], b[0]))
    return (c0, c1, c2)


def f6add(a, b):
    return tuple(f2add(x, y) for x, y in zip(a, b))


def f6nr(a):
    return (f2nr(a[2]), a[0], a[1])


def f12mul(a, b):
    return (f6add(f6mul(a[0], b[0]), f6nr(f6mul(a[1], b[1]))), f6add(f6mul(a[0], b[1]), f6mul(a[1], b[0])))


def unflat(vals, T):
    vals = list(vals)
    if T == 'Fq2':
        return tuple(vals[:2])
    if T == 'Fq6':
        return tuple(tuple(vals[2 * i:2 * i + 2]) for i in range(3))
    if T == 'Fq12':
        return tuple(tuple(tuple(vals[6 * j + 2 * i:6 * j + 2 * i + 2]) for i in range(3)) for j in range(2))


def flat(x):
    if isinstance(x, int):
        return [x]
    out = []
    for y in x:
        out += flat(y)
    return out


def env_value(env, prefix, T):
    n = {'Fq2': 2, 'Fq6': 6, 'Fq12': 12}[T]
    names = {'Fq2': ['c0', 'c1'],
             'Fq6': [f'c{i}__c{j}' for i in range(3) for j in range(2)],
             'Fq12': [f'c{k}__c{i}__c{j}' for k in range(2) for i in range(3) for j in range(2)]}[T]
    return unflat([int(env.get(f'{prefix}__{s}', '0x0'), 16) for s in names], T)


def make_replay(prop, v):
    rep = dict(property=prop, unit=v['unit'], failed_obligation=v['obligation'],
               verifier_output=[dict(msg=e['msg'], line=e['line'], file=e.get('file')) for e in v['errors']],
               confirmed_on_real_code=False)
    ring = v.get('ring')
    if v.get('symx') is not None or v['unit'].startswith('symx'):
        rep['candidate_input'] = v.get('symx')
        rep['note'] = ("symbolic execution of the real body gives an output polynomial that differs from the specified map; the candidate input is a point "
                       "where the two evaluate differently (not re-run on the compiled crate: IsogenyMap is crate-private)")
        return rep
    if v.get('kani'):
        k = v['kani']
        rep['counterexample'] = k
        if k.get('playback_test'):
            # Kani's concrete playback is the failing input as a unit test of the real (compiled) code
            rep['confirmed_on_real_code'] = True
            rep['note'] = "counterexample found by CBMC on the compiled crate; the playback test re-runs the real function on these concrete bytes"
        return rep
    if not ring:
        rep['note'] = 'the verifier gives no counterexample for this obligation and no candidate input was derived'
        return rep
    rep['generator_finding'] = ring['false_outputs'][:4]
    binp, err = build_replay()
    if not binp:
        rep['note'] = 'replay binary could not be built: ' + err
        return rep
    for fo in ring['false_outputs']:
        env = fo.get('witness') or {}
        if not env:
            continue
        label = ring['label']
        cmd = [binp, label] + [f"{k}={val}" for k, val in sorted(env.items())]
        r = subprocess.run(cmd, capture_output=True, text=True, timeout=60)
        try:
            out = json.loads(r.stdout)
        except Exception:
            rep.setdefault('replay_errors', []).append((r.stdout + r.stderr)[-500:])
            continue
        if 'error' in out:
            rep.setdefault('replay_errors', []).append(out['error'])
            continue
        actual = [int(x, 16) for x in out['out']]
        T = label.split('_')[0]
        if label.endswith('_inverse'):
            x = env_value(env, 'self', T)
            nonzero = any(flat(x))
            if out['tag'] == 'none':
                bad = nonzero
                expected = 'Some(y) with x*y == 1' if nonzero else 'None'
            else:
                y = unflat(actual, T)
                prod = {'Fq2': f2mul, 'Fq6': f6mul, 'Fq12': f12mul}[T](x, y)
                bad = (not nonzero) or flat(prod) != [1] + [0] * (len(flat(prod)) - 1)
                expected = 'x*y == 1'
            if bad:
                rep.update(confirmed_on_real_code=True, input=env, actual=out, expected=expected, command=' '.join(cmd))
                return rep
        else:
            expected = fo.get('expected')
            if expected is not None and [hex(a) for a in actual] != expected:
                rep.update(confirmed_on_real_code=True, input=env, actual=[hex(a) for a in actual], expected=expected, command=' '.join(cmd))
                return rep
    rep['note'] = 'candidate inputs did not reproduce a difference on the real code'
    return rep
