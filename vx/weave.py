"""weave: real function text (sliced) + contract + ghost insertions -> Verus text.

Rewrite rules applied to executable text (each a language-level equivalence; every
application is counted in Unit.rewrites and reported in the evidence):
  R0  attributes / doc comments dropped
  R5m `E.map(|p| B)`  ->  `match E { Some(p) => Some(B), None => None }`   (definition of Option::map)
  R7  `-> T` in a signature -> `-> (ret: T)`  (names the result for the contract)
  R6  trait-impl methods are placed in an inherent impl (trait dispatch -> inherent dispatch to the
      contracted function of the same name)
Nothing else in a body is changed; ghost text is only *inserted* between statements.
"""
import re
from .rs import Source, AnchorLost, split_statements, strip_attrs


class Unsupported(Exception):
    pass


def name_ret(sig, retname='ret'):
    """R7: name the return value"""
    m = re.search(r'\)\s*->\s*', sig)
    if not m:
        return sig, False
    # return type extends to 'where' or end
    rest = sig[m.end():]
    w = re.search(r'\bwhere\b', rest)
    ty = rest[:w.start()] if w else rest
    tail = rest[w.start():] if w else ''
    return sig[:m.start()] + ') -> (' + retname + ': ' + ty.strip() + ') ' + tail, True


def rewrite_map_closure(body, counts):
    """R5m, applied to every `.map(|pat| {block})` whose receiver starts its statement"""
    while True:
        src = Source(body)
        m = None
        for mm in re.finditer(r'\.map\(\|([^|]*)\|\s*\{', body):
            if src.mask[mm.start()]:
                m = mm
                break
        if not m:
            return body
        open_paren = body.index('(', m.start())
        close_paren = src.match_close(open_paren)
        blk_open = body.index('{', m.start())
        blk_close = src.match_close(blk_open)
        if body[blk_close + 1:close_paren].strip():
            raise Unsupported("map closure with trailing text")
        # receiver: back to start of statement / expression
        i = m.start() - 1
        depth = 0
        while i >= 0:
            ch = body[i]
            if src.mask[i]:
                if ch in ')]':
                    depth += 1
                elif ch in '([':
                    if depth == 0:
                        break
                    depth -= 1
                elif depth == 0 and (ch in ';{}=,' ):
                    break
            i -= 1
        recv_start = i + 1
        recv = body[recv_start:m.start()].strip()
        if recv.startswith('return '):
            recv_start = body.index('return ', recv_start) + len('return ')
            recv = body[recv_start:m.start()].strip()
        pat = m.group(1).strip()
        block = body[blk_open:blk_close + 1]
        new = f"match {recv} {{ Some({pat}) => Some({block}), None => None }}"
        body = body[:recv_start] + ' ' + new + body[close_paren + 1:]
        counts['R5m'] = counts.get('R5m', 0) + 1


def insert_tail(body, ghost, unit_ret=False):
    """insert ghost text at the end of the outermost block: before the trailing expression if
    there is one, else before the closing brace.  Also before every `return` statement."""
    stmts = split_statements(body)
    if unit_ret:
        close = body.rstrip().rfind('}')
        return body[:close] + ghost + '\n    ' + body[close:]
    if stmts:
        a, b = stmts[-1]
        last = body[a:b]
        if not last.rstrip().endswith(';') and not re.match(r'(if|match|for|while|loop)\b', last.lstrip()):
            body = body[:a] + ghost + '\n' + body[a:]
        elif not last.rstrip().endswith(';') and re.match(r'(if|match)\b', last.lstrip()):
            # trailing if/match expression: cannot know whether it is a value; put ghost before it
            body = body[:a] + ghost + '\n' + body[a:]
        else:
            close = body.rstrip().rfind('}')
            body = body[:close] + ghost + '\n    ' + body[close:]
    else:
        close = body.rstrip().rfind('}')
        body = body[:close] + ghost + '\n    ' + body[close:]
    return body


def insert_before_returns(body, ghost):
    src = Source(body)
    out, last = [], 0
    for m in re.finditer(r'\breturn\b', body):
        if not src.mask[m.start()]:
            continue
        out.append(body[last:m.start()])
        out.append('{ ' + ghost + ' } ' if False else ghost + ' ')
        last = m.start()
    out.append(body[last:])
    return ''.join(out)


def insert_at(body, anchor_re, ghost, where='before', occurrence=0):
    """insert ghost before/after the occurrence-th statement-level match of anchor_re"""
    src = Source(body)
    ms = [m for m in re.finditer(anchor_re, body) if src.mask[m.start()]]
    if len(ms) <= occurrence:
        raise AnchorLost(f"ghost anchor /{anchor_re}/ #{occurrence} not found")
    m = ms[occurrence]
    pos = m.start() if where == 'before' else m.end()
    if where == 'before':
        # an anchor in the middle of `return E` / `let x = E` moves to the start of that statement
        i = pos - 1
        while i >= 0 and not (src.mask[i] and body[i] in ';{}'):
            i -= 1
        head = body[i + 1:pos]
        if re.fullmatch(r'\s*(return|let\s+(mut\s+)?[A-Za-z_][A-Za-z0-9_]*\s*(:[^=]*)?=)\s*', head):
            pos = i + 1 + (len(head) - len(head.lstrip()))
    return body[:pos] + ' ' + ghost + ' ' + body[pos:]


def attach_loop_invariants(body, invs, counts):
    """invs: list (by loop ordinal, source order) of invariant/decreases text or None.
    `for PAT in EXPR {` / `while COND {` / `loop {`  ->  header + invariant text + `{`."""
    src = Source(body)
    loops = []
    for m in re.finditer(r'\b(for|while|loop)\b', body):
        if not src.mask[m.start()]:
            continue
        # find the '{' that opens the loop body: first '{' at paren depth 0 after header
        i = m.end()
        depth = 0
        while i < len(body):
            if src.mask[i]:
                if body[i] in '([':
                    depth += 1
                elif body[i] in ')]':
                    depth -= 1
                elif body[i] == '{' and depth == 0:
                    break
            i += 1
        loops.append((m.start(), i))
    if len(invs) != len(loops):
        raise AnchorLost(f"loop count changed: {len(loops)} loops in code, {len(invs)} invariants given")
    for (st, brace), inv in sorted(zip(loops, invs), reverse=True):
        if inv:
            body = body[:brace] + '\n' + inv + '\n' + body[brace:]
    return body


def name_for_binders(body, counts):
    """R2: `for _ in A..B` -> `for _iN in A..B`"""
    n = [0]
    def rep(m):
        n[0] += 1
        counts['R2'] = counts.get('R2', 0) + 1
        return f"for _i{n[0]} in "
    return re.sub(r'\bfor _ in ', rep, body)


def find_loops(body):
    """[(start, brace_open, brace_close)] of for/while/loop statements in source order"""
    src = Source(body)
    loops = []
    for m in re.finditer(r'\b(for|while|loop)\b', body):
        if not src.mask[m.start()]:
            continue
        i = m.end()
        depth = 0
        while i < len(body):
            if src.mask[i]:
                if body[i] in '([':
                    depth += 1
                elif body[i] in ')]':
                    depth -= 1
                elif body[i] == '{' and depth == 0:
                    break
            i += 1
        loops.append((m.start(), i, src.match_close(i)))
    return loops


def weave_power_loops(body, op, view, inv_tmpl, counts, extra_inv=''):
    """Every loop of the shape `for _iN in A..B { X.<op>(); }` (A, B literals) gets
         let ghost e_N = X.<view>;            (before)
         invariant  <inv_tmpl(X, _iN - A, e_N)>  (loop)
         assert(pow2(B-A) == 2^(B-A)) by(compute)   (after)
    Any other loop shape makes the function unsupported."""
    loops = find_loops(body)
    for (st, bo, bc) in sorted(loops, reverse=True):
        header = body[st:bo]
        inner = body[bo + 1:bc].strip()
        mh = re.fullmatch(r'for\s+(_i\d+)\s+in\s+(\d+)\s*\.\.\s*(\d+)\s*', header)
        mb = re.fullmatch(r'([A-Za-z_][A-Za-z0-9_]*)\s*\.\s*' + op + r'\s*\(\s*\)\s*;', inner)
        if not mh or not mb:
            raise Unsupported(f"loop shape not covered by the tracking generator: {header.strip()} {{ {inner[:60]} }}")
        iv, a, b = mh.group(1), int(mh.group(2)), int(mh.group(3))
        x = mb.group(1)
        n = b - a
        g = f"e{iv}"
        idx = f"({iv} - {a})" if a else iv
        inv = f"    invariant {inv_tmpl(x, idx, g)}{extra_inv}\n"
        after = f" proof {{ assert(pow2({n}) == {2 ** n}) by(compute); }} "
        before = f" let ghost {g} = {x}.{view}; "
        body = body[:st] + before + body[st:bo] + "\n" + inv + body[bo:bc + 1] + after + body[bc + 1:]
        counts['loops'] = counts.get('loops', 0) + 1
    return body


def rewrite_for_iter(body, counts, specs):
    """R1 (the Rust reference's definition of `for`):
         for PAT in EXPR { B }   ->   let mut itN = EXPR; <ghost_before> loop <invariant> { match itN.next() { Some(PAT) => { B <ghost_arm> } None => { break; } } }
    applied to the loops whose EXPR is not a range (`a..b`).  specs: list (by ordinal among those loops) of dicts
    with keys invariant (text using {it}), ghost_before, ghost_arm, ghost_after."""
    loops = [l for l in find_loops(body) if body[l[0]:l[0] + 3] == 'for']
    targets = []
    for (st, bo, bc) in loops:
        m = re.fullmatch(r'for\s+(.+?)\s+in\s+(.+?)\s*', body[st:bo], re.S)
        if not m or re.search(r'\.\.', m.group(2)):
            continue
        targets.append((st, bo, bc, m.group(1), m.group(2)))
    if len(targets) != len(specs):
        raise AnchorLost(f"iterator-loop count changed: {len(targets)} in code, {len(specs)} specified")
    for k in range(len(targets) - 1, -1, -1):
        st, bo, bc, pat, expr = targets[k]
        sp = specs[k]
        it = f"it{k + 1}"
        inner = body[bo + 1:bc]
        new = (f"let mut {it} = {expr}; {sp.get('ghost_before', '').replace('{it}', it)}\n loop\n{sp['invariant'].replace('{it}', it)}\n{{ match {it}.next() {{ Some({pat}) => {{ "
               f"{inner} {sp.get('ghost_arm', '').replace('{it}', it)} }} None => {{ break; }} }} }} {sp.get('ghost_after', '').replace('{it}', it)}")
        body = body[:st] + new + body[bc + 1:]
        counts['R1'] = counts.get('R1', 0) + 1
    return body


def rewrite_array_patterns(body, counts):
    """R11: `let [p0, p1, _, ..] = EXPR;`  ->  `let arrN = EXPR; let p0 = arrN[0]; let p1 = arrN[1]; ...`  (slice patterns)"""
    n = [0]

    def rep(m):
        n[0] += 1
        counts['R11'] = counts.get('R11', 0) + 1
        pats = [p.strip() for p in m.group(1).split(',')]
        a = f"arr{n[0]}_"
        out = f"let {a} = {m.group(2).strip()};"
        for i, p in enumerate(pats):
            if p and p != '_':
                out += f" let {p} = {a}[{i}];"
        return out
    return re.sub(r'let\s*\[([^\]]*)\]\s*=\s*([^;]+);', rep, body)


def rewrite_for_slice(body, counts):
    """R4: `for PAT in &ARR[..] { B }` (B without break/continue)  ->  index loop over 0..ARR.len()"""
    k = [0]
    while True:
        src = Source(body)
        m = None
        for mm in re.finditer(r'\bfor\s+([A-Za-z_]\w*)\s+in\s+&([A-Za-z_][A-Za-z0-9_:]*)\[\.\.\]\s*\{', body):
            if src.mask[mm.start()]:
                m = mm
                break
        if not m:
            return body
        bo = m.end() - 1
        bc = src.match_close(bo)
        inner = body[bo + 1:bc]
        if re.search(r'\b(break|continue)\b', inner):
            raise Unsupported("slice loop with break/continue")
        k[0] += 1
        i = f"idx{k[0]}_"
        arr = m.group(2)
        new = (f"let mut {i}: usize = 0; while {i} < {arr}.len()\n    invariant {i} <= {arr}.len()\n    decreases {arr}.len() - {i}\n"
               f"{{ let {m.group(1)} = &{arr}[{i}]; {inner} {i} += 1; }};")
        body = body[:m.start()] + new + body[bc + 1:]
        counts['R4'] = counts.get('R4', 0) + 1


def rewrite_rev_range(body, counts, invariants):
    """R3: `for i in (A..B).rev() { S }`  ->  `let mut i = B; while i > A <invariant> { i -= 1; S }`  (semantics of Rev<Range>).
    invariants: list of invariant texts by ordinal (may use the loop variable)."""
    k = 0
    while True:
        src = Source(body)
        m = None
        for mm in re.finditer(r'\bfor\s+([A-Za-z_]\w*)\s+in\s+\((\w+)\.\.(\w+)\)\.rev\(\)\s*\{', body):
            if src.mask[mm.start()]:
                m = mm
                break
        if not m:
            if k != len(invariants):
                raise AnchorLost(f"reverse-range loop count changed: {k} in code, {len(invariants)} specified")
            return body
        if k >= len(invariants):
            raise AnchorLost("more reverse-range loops than specified")
        bo = m.end() - 1
        bc = src.match_close(bo)
        v, a, b = m.group(1), m.group(2), m.group(3)
        new = f"let mut {v} = {b}; while {v} > {a}\n{invariants[k]}\n    decreases {v}\n{{ {v} -= 1; {body[bo + 1:bc]} }}"
        body = body[:m.start()] + new + body[bc + 1:]
        counts['R3'] = counts.get('R3', 0) + 1
        k += 1


def rewrite_rev_iter(body, counts, invariants):
    """R3s: `for n in X.iter().rev() { S }` (S without break/continue)  ->
       `let mut ridxK_ = X.len(); while ridxK_ > 0 <invariant> { ridxK_ -= 1; let n = &X[ridxK_]; S }`
    (DoubleEndedIterator of a slice: elements from the last to the first, by reference)."""
    k = 0
    while True:
        src = Source(body)
        m = None
        for mm in re.finditer(r'\bfor\s+([A-Za-z_]\w*)\s+in\s+([A-Za-z_]\w*)\.iter\(\)\.rev\(\)\s*\{', body):
            if src.mask[mm.start()]:
                m = mm
                break
        if not m:
            if k != len(invariants):
                raise AnchorLost(f"reverse-iterator loop count changed: {k} in code, {len(invariants)} specified")
            return body
        if k >= len(invariants):
            raise AnchorLost("more reverse-iterator loops than specified")
        bo = m.end() - 1
        bc = src.match_close(bo)
        inner = body[bo + 1:bc]
        if re.search(r'\b(break|continue)\b', inner):
            raise Unsupported("reverse-iterator loop with break/continue")
        v, arr = m.group(1), m.group(2)
        i = f"ridx{k + 1}_"
        new = (f"let mut {i}: usize = {arr}.len(); while {i} > 0\n{invariants[k].replace('{i}', i)}\n    decreases {i}\n"
               f"{{ {i} -= 1; let {v} = &{arr}[{i}]; {inner} }}")
        body = body[:m.start()] + new + body[bc + 1:]
        counts['R3s'] = counts.get('R3s', 0) + 1
        k += 1


def rewrite_for_array_ref(body, counts, invariants):
    """R4b: `for r in &ARR { B }` (ARR a local const array; B may break)  ->
       `let mut aidxK_: usize = 0; while aidxK_ < ARR.len() <invariant> { let r = &ARR[aidxK_]; aidxK_ += 1; B }`
    (the increment precedes B, so `break` / `continue` in B keep their meaning)."""
    k = 0
    while True:
        src = Source(body)
        m = None
        for mm in re.finditer(r'\bfor\s+([A-Za-z_]\w*)\s+in\s+&([A-Z][A-Z0-9_]*)\s*\{', body):
            if src.mask[mm.start()]:
                m = mm
                break
        if not m:
            if k != len(invariants):
                raise AnchorLost(f"array loop count changed: {k} in code, {len(invariants)} specified")
            return body
        if k >= len(invariants):
            raise AnchorLost("more array loops than specified")
        bo = m.end() - 1
        bc = src.match_close(bo)
        inner = body[bo + 1:bc]
        v, arr = m.group(1), m.group(2)
        i = f"aidx{k + 1}_"
        new = (f"let mut {i}: usize = 0; while {i} < {arr}.len()\n{invariants[k].replace('{i}', i)}\n    decreases {arr}.len() - {i}\n"
               f"{{ let {v} = &{arr}[{i}]; {i} += 1; {inner} }}")
        body = body[:m.start()] + new + body[bc + 1:]
        counts['R4b'] = counts.get('R4b', 0) + 1
        k += 1
