"""Minimal Rust text utilities: comment/string-aware scanning, brace matching, item index.

Input is always rustc's own pretty-printer output (-Zunpretty=expanded) or registry
source; nothing here interprets Rust semantics, it only locates and cuts text.
"""
import re


class AnchorLost(Exception):
    pass


def skip_map(src):
    """bytearray mask: 1 where the char is code, 0 inside comments/strings/chars."""
    n = len(src)
    mask = bytearray(b"\x01") * n
    i = 0
    while i < n:
        c = src[i]
        if c == '/' and i + 1 < n and src[i + 1] == '/':
            j = src.find('\n', i)
            j = n if j < 0 else j
            for k in range(i, j):
                mask[k] = 0
            i = j
        elif c == '/' and i + 1 < n and src[i + 1] == '*':
            depth, j = 1, i + 2
            while j < n and depth:
                if src.startswith('/*', j):
                    depth += 1; j += 2
                elif src.startswith('*/', j):
                    depth -= 1; j += 2
                else:
                    j += 1
            for k in range(i, j):
                mask[k] = 0
            i = j
        elif c == '"' or (c == 'r' and re.match(r'r#*"', src[i:i + 8]) and (i == 0 or not (src[i - 1].isalnum() or src[i - 1] == '_'))) \
                or (c == 'b' and i + 1 < n and src[i + 1] == '"' and (i == 0 or not (src[i - 1].isalnum() or src[i - 1] == '_'))):
            if c == 'b':
                j = i + 2
                raw = None
            elif c == 'r':
                m = re.match(r'r(#*)"', src[i:])
                raw = m.group(1)
                j = i + len(m.group(0))
            else:
                raw = None
                j = i + 1
            if raw is not None:
                end = src.find('"' + raw, j)
                j = n if end < 0 else end + 1 + len(raw)
            else:
                while j < n and src[j] != '"':
                    j += 2 if src[j] == '\\' else 1
                j += 1
            for k in range(i, min(j, n)):
                mask[k] = 0
            i = j
        elif c == "'":
            # char literal or lifetime
            m = re.match(r"'(\\.[^']*|[^'\\])'", src[i:i + 12])
            if m:
                for k in range(i, i + len(m.group(0))):
                    mask[k] = 0
                i += len(m.group(0))
            else:
                i += 1
        else:
            i += 1
    return mask


class Source:
    def __init__(self, text, name="<src>"):
        self.shadowed = []
        self.text = text
        self.name = name
        self.mask = skip_map(text)
        self._index = None

    def match_close(self, open_pos):
        """position of the bracket matching text[open_pos] ('{', '(' or '[')."""
        t, m = self.text, self.mask
        o = t[open_pos]
        c = {'{': '}', '(': ')', '[': ']'}[o]
        depth = 0
        for i in range(open_pos, len(t)):
            if not m[i]:
                continue
            if t[i] == o:
                depth += 1
            elif t[i] == c:
                depth -= 1
                if depth == 0:
                    return i
        raise AnchorLost(f"unbalanced {o} at {open_pos} in {self.name}")

    def index(self):
        """list of items: dict(kind, header, path(list of enclosing headers), start, body_open, end)"""
        if self._index is not None:
            return self._index
        t, m = self.text, self.mask
        items = []
        stack = []  # (header, is_item_block)
        stmt_start = 0
        i, n = 0, len(t)
        paren = 0
        while i < n:
            if not m[i]:
                i += 1
                continue
            c = t[i]
            if c in '([':
                paren += 1
            elif c in ')]':
                paren -= 1
            elif c == ';' and paren == 0:
                seg = self._code(stmt_start, i)
                if 'struct' in seg:
                    header = norm_header(seg)
                    if header_kind(header) == 'struct':
                        items.append(dict(kind='struct', header=header, path=[h for h, _ in stack],
                                          start=stmt_start, body_open=-1, end=i + 1))
                stmt_start = i + 1
            elif c == '{' and paren == 0:
                header = norm_header(self._code(stmt_start, i))
                kind = header_kind(header)
                if kind in ('mod', 'impl', 'trait'):
                    stack.append((header, i))
                    items.append(dict(kind=kind, header=header, path=[h for h, _ in stack[:-1]],
                                      start=stmt_start, body_open=i, end=None))
                    stmt_start = i + 1
                else:
                    close = self.match_close(i)
                    if kind in ('fn', 'struct', 'enum', 'const', 'static'):
                        items.append(dict(kind=kind, header=header, path=[h for h, _ in stack],
                                          start=stmt_start, body_open=i, end=close + 1))
                    i = close
                    # `const X: T = [ .. { } ..];` style handled by paren; a struct/fn body ends the item
                    if kind in ('fn', 'struct', 'enum', 'other'):
                        stmt_start = close + 1
            elif c == '}' and paren == 0:
                if stack:
                    h, op = stack.pop()
                    for it in reversed(items):
                        if it['body_open'] == op:
                            it['end'] = i + 1
                            break
                stmt_start = i + 1
            i += 1
        self._index = items
        return items

    def _code(self, a, b):
        """text[a:b] with comments blanked"""
        return ''.join(ch if self.mask[a + k] else ' ' for k, ch in enumerate(self.text[a:b]))

    # ---- lookup -------------------------------------------------------------------
    def find_fn(self, mod, impl, name):
        """mod: last module name (e.g. 'fq2') or '' ; impl: normalized impl/trait header or ''."""
        cands = []
        for it in self.index():
            if it['kind'] != 'fn' or fn_name(it['header']) != name:
                continue
            path = it['path']
            mods = [mod_name(h) for h in path if header_kind(h) == 'mod']
            impls = [h for h in path if header_kind(h) in ('impl', 'trait')]
            if mod and (not mods or mods[-1] != mod):
                continue
            if impl:
                if not impls:
                    continue
                if impl.startswith('re:'):
                    if not re.search(impl[3:], norm_header(impls[-1])):
                        continue
                elif norm_header(impls[-1]) != norm_header(impl):
                    continue
            elif impls:
                continue
            cands.append(it)
        if len(cands) != 1:
            raise AnchorLost(f"anchor lost: fn {mod}|{impl}|{name}: {len(cands)} candidates in {self.name}")
        it = cands[0]
        # method resolution (rule R24): `x.name(..)` resolves to an inherent method of the type before any trait method, so when the
        # function asked for is a trait method and the same module path holds an inherent method of that name on the same type, the
        # inherent one is what the crate's callers run and is the text that gets the contract
        impls = [h for h in it['path'] if header_kind(h) in ('impl', 'trait')]
        if impls and header_kind(impls[-1]) == 'impl':
            m = re.search(r'\bfor\s+(?:\w+::)*([A-Za-z_]\w*)\b(?:\s*<[^{]*>)?\s*(?:where\b.*)?$', norm_header(impls[-1]))
            if m:
                sh = self.inherent_fn(m.group(1), name, [h for h in it['path'] if header_kind(h) == 'mod'])
                if sh is not None:
                    self.shadowed.append(f"{m.group(1)}::{name}")
                    return sh
        return it

    def inherent_fn(self, type_name, name, mods=None):
        """the inherent method `name` of `type_name` (impl block without a trait), or None; mods: restrict to this module path"""
        for jt in self.index():
            if jt['kind'] != 'fn' or fn_name(jt['header']) != name:
                continue
            ji = [h for h in jt['path'] if header_kind(h) in ('impl', 'trait')]
            if not ji or header_kind(ji[-1]) != 'impl':
                continue
            h = norm_header(ji[-1])
            if re.search(r'\bfor\b', h) or not re.match(r'impl(\s*<[^>]*>)?\s+(?:\w+::)*' + re.escape(type_name) + r'\b', h):
                continue
            if mods is not None and [x for x in jt['path'] if header_kind(x) == 'mod'] != mods:
                continue
            return jt
        return None

    def find_item(self, mod, kind, name_re):
        cands = []
        for it in self.index():
            if it['kind'] != kind or not re.search(name_re, it['header']):
                continue
            mods = [mod_name(h) for h in it['path'] if header_kind(h) == 'mod']
            if mod and (not mods or mods[-1] != mod):
                continue
            cands.append(it)
        if len(cands) != 1:
            raise AnchorLost(f"anchor lost: {kind} {mod}|{name_re}: {len(cands)} candidates in {self.name}")
        return cands[0]

    def fn_parts(self, it):
        """(signature text without attributes/docs, body text including braces)"""
        sig = strip_attrs(self.text[it['start']:it['body_open']]).strip()
        body = self.text[it['body_open']:it['end']]
        return sig, body

    def find_const(self, mod, name):
        """text of `const NAME: T = ...;` (or static) in module mod"""
        t = self.text
        for m_ in re.finditer(r'\b(?:pub(?:\([^)]*\))?\s+)?(?:const|static)\s+' + re.escape(name) + r'\s*:', t):
            if not self.mask[m_.start()]:
                continue
            # enclosing module check
            mods = self._enclosing_mods(m_.start())
            if mod and (not mods or mods[-1] != mod):
                continue
            # find terminating ';' at depth 0
            i, depth = m_.end(), 0
            while i < len(t):
                if self.mask[i]:
                    if t[i] in '([{':
                        depth += 1
                    elif t[i] in ')]}':
                        depth -= 1
                    elif t[i] == ';' and depth == 0:
                        return t[m_.start():i + 1]
                i += 1
        raise AnchorLost(f"anchor lost: const {mod}|{name} in {self.name}")

    def _enclosing_mods(self, pos):
        out = []
        for it in self.index():
            if it['kind'] == 'mod' and it['body_open'] < pos and it['end'] and pos < it['end']:
                out.append((it['body_open'], mod_name(it['header'])))
        return [n for _, n in sorted(out)]


def norm_header(h):
    h = strip_attrs(h)
    h = re.sub(r'\s+', ' ', h).strip()
    return h


def strip_attrs(h):
    # drop doc comments and #[...] attributes (possibly multi-line, balanced brackets)
    out, i, n = [], 0, len(h)
    while i < n:
        if h.startswith('///', i) or h.startswith('//!', i) or h.startswith('//', i):
            j = h.find('\n', i)
            i = n if j < 0 else j + 1
        elif h.startswith('/*', i):
            j = h.find('*/', i)
            i = n if j < 0 else j + 2
        elif h[i] == '#' and re.match(r'#!?\[', h[i:i + 3]):
            j = h.index('[', i)
            depth = 0
            while j < n:
                if h[j] == '[':
                    depth += 1
                elif h[j] == ']':
                    depth -= 1
                    if depth == 0:
                        break
                elif h[j] == '"':
                    j += 1
                    while j < n and h[j] != '"':
                        j += 2 if h[j] == '\\' else 1
                j += 1
            i = j + 1
        else:
            out.append(h[i])
            i += 1
    return ''.join(out)


def header_kind(h):
    h2 = h.strip()
    while True:
        m = re.match(r'(pub(\([^)]*\))?|default|unsafe|async|extern\s+"[^"]*"|const(?=\s+(fn|unsafe|async|extern)\b))\s+', h2)
        if not m:
            break
        h2 = h2[m.end():]
    for k in ('mod', 'impl', 'trait', 'fn', 'struct', 'enum', 'union'):
        if re.match(k + r'\b', h2):
            return 'struct' if k == 'union' else k
    if re.match(r'(const|static)\b', h2):
        return 'const'
    return 'other'


def fn_name(h):
    m = re.search(r'\bfn\s+([A-Za-z_][A-Za-z0-9_]*)', h)
    return m.group(1) if m else None


def mod_name(h):
    m = re.search(r'\bmod\s+([A-Za-z_][A-Za-z0-9_]*)', h)
    return m.group(1) if m else None


def split_statements(body):
    """body: text including outer braces.  Returns list of (start, end) offsets (within body) of the
    top-level statements (and trailing expression) of the block."""
    src = Source(body)
    t, m = src.text, src.mask
    assert t[0] == '{'
    end = src.match_close(0)
    out = []
    i = 1
    start = None
    depth = 0
    while i < end:
        if not m[i]:
            if start is None and not t[i].isspace() and not t.startswith('//', i) and not t.startswith('/*', i):
                start = i
            i += 1
            continue
        c = t[i]
        if start is None and not c.isspace():
            start = i
        if c in '([{':
            if c == '{' and depth == 0:
                close = src.match_close(i)
                # block-like statement ends at '}' unless followed by method call / operator / ';' / else
                j = close + 1
                k = j
                while k < end and t[k].isspace():
                    k += 1
                head = t[start:i].lstrip()
                blocklike = re.match(r'(if|match|for|while|loop|unsafe|\{)', head + '{') and not re.match(r'let\b', head)
                if blocklike and not (t.startswith('else', k) or (k < end and t[k] in '.?;') ):
                    out.append((start, j))
                    start = None
                i = close + 1
                continue
            depth += 1
        elif c in ')]}':
            depth -= 1
        elif c == ';' and depth == 0:
            out.append((start, i + 1))
            start = None
        i += 1
    if start is not None:
        tail = t[start:end].strip()
        if tail:
            out.append((start, start + len(t[start:end].rstrip())))
    return out
