"""Ring tactic: from two expression DAGs over the base-field spec ops (fadd, fsub, fmul, fneg, fdbl)
emit a Verus lemma `code_tree == spec_tree` with a guided proof (untrusted generator; Verus checks).

Proof shape per distinct DAG node n:   n == e_n % q   where e_n is the expanded integer polynomial,
using one vstd congruence lemma, and for products one isolated nonlinear fact e_a * e_b == e_n between
already expanded operands.  Both roots reduce to the same canonical polynomial text.
With hypotheses  h_l == h_r (mod q)  the difference of the two root polynomials is written as
sum cof_i * (h_l_i - h_r_i) (cofactors found by linear algebra over the monomials, in Python).
"""
from collections import defaultdict
import itertools
import random

Q = 0x1a0111ea397fe69a4b1ba7b6434bacd764774b84f38512bf6730d2a0f6b0f6241eabfffeb153ffffb9feffffffffaaab


class Poly:
    __slots__ = ('d',)

    def __init__(s, d=None):
        s.d = {k: v for k, v in (d or {}).items() if v != 0}

    @staticmethod
    def var(n):
        return Poly({((n, 1),): 1})

    @staticmethod
    def const(c):
        return Poly({(): c})

    def __add__(s, o):
        d = defaultdict(int, s.d)
        for k, v in o.d.items():
            d[k] += v
        return Poly(d)

    def __neg__(s):
        return Poly({k: -v for k, v in s.d.items()})

    def __sub__(s, o):
        return s + (-o)

    def __mul__(s, o):
        d = defaultdict(int)
        for k1, v1 in s.d.items():
            for k2, v2 in o.d.items():
                if not k1:
                    k = k2
                elif not k2:
                    k = k1
                else:
                    m = defaultdict(int)
                    for n, e in k1:
                        m[n] += e
                    for n, e in k2:
                        m[n] += e
                    k = tuple(sorted(m.items()))
                d[k] += v1 * v2
        return Poly(d)

    def __eq__(s, o):
        return s.d == o.d

    def is_zero(s):
        return not s.d

    def nterms(s):
        return len(s.d)

    def vars(s):
        return {n for k in s.d for n, _ in k}

    def eval(s, env, mod):
        t = 0
        for k, c in s.d.items():
            m = c
            for n, e in k:
                m = m * pow(env[n], e, mod) % mod
            t = (t + m) % mod
        return t

    def txt(s):
        """canonical text; negative coefficients are written as subtractions (the `(-1)*(m)` form sends
        Verus' nonlinear_arith mode into a resource-limit failure)"""
        if not s.d:
            return "0int"
        pos, neg = [], []
        for k in sorted(s.d):
            c = s.d[k]
            m = "*".join("*".join([n] * e) for n, e in k)
            a = abs(c)
            if m == "":
                t = f"({a}int)"
            elif a == 1:
                t = m
            else:
                t = f"(({a}int)*({m}))"
            (pos if c > 0 else neg).append(t)
        out = " + ".join(pos) if pos else "0int"
        for t in neg:
            out += " - " + t
        return out


class Dag:
    """nodes: list of ['v',name] | ['c',text] | [op,a(,b)]"""

    def __init__(self, nodes, const_vals=None):
        self.nodes = nodes
        self._poly = {}
        self._txt = {}
        self.const_vals = const_vals or {}

    def poly(self, i):
        if i in self._poly:
            return self._poly[i]
        # iterative post-order to avoid recursion limits
        stack = [i]
        while stack:
            j = stack[-1]
            if j in self._poly:
                stack.pop()
                continue
            n = self.nodes[j]
            kids = [k for k in n[1:] if isinstance(k, int)]
            todo = [k for k in kids if k not in self._poly]
            if todo:
                stack.extend(todo)
                continue
            op = n[0]
            if op == 'v':
                p = Poly.var(n[1])
            elif op == 'c':
                p = Poly.const(int(n[1])) if n[1].lstrip('-').isdigit() else Poly.var(n[1])
            elif op == 'add':
                p = self._poly[n[1]] + self._poly[n[2]]
            elif op == 'sub':
                p = self._poly[n[1]] - self._poly[n[2]]
            elif op == 'mul':
                p = self._poly[n[1]] * self._poly[n[2]]
            elif op == 'neg':
                p = -self._poly[n[1]]
            elif op == 'dbl':
                p = self._poly[n[1]] + self._poly[n[1]]
            else:
                raise ValueError(op)
            self._poly[j] = p
            stack.pop()
        return self._poly[i]

    def spec_txt(self, i):
        """Verus term text (fully expanded tree)"""
        if i in self._txt:
            return self._txt[i]
        n = self.nodes[i]
        op = n[0]
        if op == 'v':
            t = n[1]
        elif op == 'c':
            t = {'0': 'fzero()', '1': 'fone()'}.get(n[1], n[1] + ('' if not n[1].lstrip('-').isdigit() else 'int'))
        else:
            f = {'add': 'fadd', 'sub': 'fsub', 'mul': 'fmul', 'neg': 'fneg', 'dbl': 'fdbl'}[op]
            t = f"{f}({', '.join(self.spec_txt(k) for k in n[1:])})"
        self._txt[i] = t
        return t

    def leaves(self, i, acc=None):
        acc = set() if acc is None else acc
        seen = set()
        stack = [i]
        while stack:
            j = stack.pop()
            if j in seen:
                continue
            seen.add(j)
            n = self.nodes[j]
            if n[0] == 'v' or (n[0] == 'c' and not n[1].lstrip('-').isdigit()):
                acc.add(n[1])
            else:
                stack.extend(k for k in n[1:] if isinstance(k, int))
        return acc

    def size(self, i):
        seen = set()
        stack = [i]
        while stack:
            j = stack.pop()
            if j in seen:
                continue
            seen.add(j)
            stack.extend(k for k in self.nodes[j][1:] if isinstance(k, int))
        return len(seen)


class IdentityFalse(Exception):
    def __init__(self, msg, witness=None):
        super().__init__(msg)
        self.witness = witness


def find_cofactors(diff, hyps, maxdeg_extra=0):
    """diff, hyps: Poly.  Find polys c_i with diff == sum c_i*hyps_i over Q (rational coefficients kept
    integral by scaling is not attempted: we solve over the integers mod a large prime first, then lift
    small rationals).  Strategy: candidate cofactor monomials = quotients of diff monomials by hyp
    monomials; solve the linear system with sympy."""
    import sympy
    if diff.is_zero():
        return [Poly() for _ in hyps]
    # candidate monomials for each cofactor
    def mono_div(m, h):
        md = dict(m)
        for n, e in h:
            if md.get(n, 0) < e:
                return None
            md[n] -= e
        return tuple(sorted((n, e) for n, e in md.items() if e))
    cands = []
    for hi, h in enumerate(hyps):
        cs = set()
        frontier = set(diff.d.keys())
        for _round in range(3):
            newc = set()
            for m in frontier:
                for hm in h.d:
                    qm = mono_div(m, hm)
                    if qm is not None:
                        newc.add(qm)
            newc -= cs
            cs |= newc
            # products of new cofactor monomials with hyp monomials may create further monomials to cancel
            frontier = set()
            for cm in newc:
                for hm in h.d:
                    frontier |= set((Poly({cm: 1}) * Poly({hm: 1})).d.keys())
            frontier -= set(diff.d.keys())
            if not frontier:
                break
        cands.append(sorted(cs))
    unknowns = [(hi, cm) for hi, cs in enumerate(cands) for cm in cs]
    if not unknowns:
        return None
    # equations: for each monomial, sum coeff = diff coeff
    rows = defaultdict(lambda: defaultdict(int))
    for ui, (hi, cm) in enumerate(unknowns):
        prod = Poly({cm: 1}) * hyps[hi]
        for m, c in prod.d.items():
            rows[m][ui] += c
    monos = sorted(set(rows.keys()) | set(diff.d.keys()))
    A = sympy.zeros(len(monos), len(unknowns))
    b = sympy.zeros(len(monos), 1)
    for r, m in enumerate(monos):
        for ui, c in rows[m].items():
            A[r, ui] = c
        b[r, 0] = diff.d.get(m, 0)
    try:
        syms = sympy.symbols(f'x0:{len(unknowns)}')
        sol = sympy.linsolve((A, b), *syms)
    except Exception:
        return None
    if not sol:
        return None
    sol = list(sol)[0]
    sol = [s.subs({x: 0 for x in syms}) for s in sol]
    if any(s.q != 1 for s in sol):
        return None
    out = [defaultdict(int) for _ in hyps]
    for (hi, cm), s in zip(unknowns, sol):
        out[hi][cm] += int(s)
    return [Poly(o) for o in out]


def emit_lemma(name, dag, pairs, hyps=(), extra_requires=(), vars_order=None):
    """pairs: list of (code_root, spec_root) node ids; hyps: list of (lhs_root, rhs_root).
    Returns (lemma_text, params list).  Raises IdentityFalse if some pair is not an identity
    (modulo the hypotheses)."""
    lines = []
    seen = {}
    need_fin = set()

    def walk(root):
        # iterative post-order
        stack = [root]
        while stack:
            j = stack[-1]
            if j in seen:
                stack.pop()
                continue
            n = dag.nodes[j]
            kids = [k for k in n[1:] if isinstance(k, int)]
            todo = [k for k in kids if k not in seen]
            if todo:
                stack.extend(todo)
                continue
            stack.pop()
            op = n[0]
            if op == 'v' or op == 'c':
                t = dag.spec_txt(j)
                seen[j] = (t, dag.poly(j).txt(), True)
                continue
            ks = [seen[k] for k in kids]
            i = len(seen)
            nn, ee = f"n{i}", f"e{i}"
            f = {'add': 'fadd', 'sub': 'fsub', 'mul': 'fmul', 'neg': 'fneg', 'dbl': 'fdbl'}[op]
            lines.append(f"let {nn} = {f}({', '.join(x[0] for x in ks)});")
            lines.append(f"let {ee} = {dag.poly(j).txt()};")
            # operands that are leaves have e == the leaf itself, congruence needs nothing special
            if op == 'mul':
                (n1, e1, _), (n2, e2, _) = ks
                lines.append(f"lemma_mul_mod_noop_general({e1}, {e2}, q);")
                lines.append(f"assert(({e1}) * ({e2}) == {ee}) by(nonlinear_arith) requires {ee} == {dag.poly(j).txt()}" +
                             "".join(f", {e} == {dag.poly(k).txt()}" for (nm, e, leaf), k in zip(ks, kids) if not leaf) + ";")
            elif op == 'add':
                lines.append(f"lemma_add_mod_noop({ks[0][1]}, {ks[1][1]}, q);")
                lines.append(f"assert(({ks[0][1]}) + ({ks[1][1]}) == {ee});")
            elif op == 'sub':
                lines.append(f"lemma_sub_mod_noop({ks[0][1]}, {ks[1][1]}, q);")
                lines.append(f"assert(({ks[0][1]}) - ({ks[1][1]}) == {ee});")
            elif op == 'neg':
                lines.append(f"lemma_sub_mod_noop(0, {ks[0][1]}, q);")
                lines.append(f"lemma_small_mod(0, q as nat);")
                lines.append(f"assert(0 - ({ks[0][1]}) == {ee});")
            elif op == 'dbl':
                lines.append(f"lemma_add_mod_noop({ks[0][1]}, {ks[0][1]}, q);")
                lines.append(f"assert(({ks[0][1]}) + ({ks[0][1]}) == {ee});")
            lines.append(f"assert({nn} == ({ee}) % q);")
            seen[j] = (nn, ee, False)
        return seen[root]

    hyp_polys = [dag.poly(l) - dag.poly(r) for l, r in hyps]
    ens = []
    closing = []
    for (c, s) in pairs:
        pc, ps = dag.poly(c), dag.poly(s)
        diff = pc - ps
        cof = None
        if not diff.is_zero():
            if hyp_polys:
                cof = find_cofactors(diff, hyp_polys)
            if cof is None:
                raise IdentityFalse(f"{name}: output is not identically equal to the spec", witness=(c, s))
        ens.append(f"{dag.spec_txt(c)} == {dag.spec_txt(s)}")
        if dag.spec_txt(c) == dag.spec_txt(s):
            continue
        nc = walk(c)
        ns = walk(s)
        for (nm, e, leaf), root in ((nc, c), (ns, s)):
            if leaf:
                need_fin.add(nm)
        if cof is None:
            closing.append(f"assert({nc[0]} == {ns[0]});" if not (nc[2] or ns[2]) else
                           f"lemma_small_mod_any({nc[1] if nc[2] else ns[1]}, q); assert({nc[0]} == {ns[0]});")
        else:
            # (pc - ps) == sum cof_i * hyp_i  and each hyp_i % q == 0
            hl = []
            for hi, ((l, r), cp) in enumerate(zip(hyps, cof)):
                if cp.is_zero():
                    continue
                wl, wr = walk(l), walk(r)
                for (nm, e, leaf) in (wl, wr):
                    if leaf:
                        need_fin.add(nm)
                hl.append((hi, wl, wr, cp))
            terms = " + ".join(f"(({cp.txt()}) * (({wl[1]}) - ({wr[1]})))" for hi, wl, wr, cp in hl)
            k = len(closing)
            closing.append(f"let dlt{k} = ({nc[1]}) - ({ns[1]});")
            closing.append(f"assert(dlt{k} == {terms}) by(nonlinear_arith) requires dlt{k} == ({pc.txt()}) - ({ps.txt()})" +
                           "".join(f", ({wl[1]}) == {dag.poly(hyps[hi][0]).txt()}, ({wr[1]}) == {dag.poly(hyps[hi][1]).txt()}" for hi, wl, wr, cp in hl) + ";")
            for hi, wl, wr, cp in hl:
                closing.append(f"lemma_cong_zero_mul(({cp.txt()}), ({wl[1]}), ({wr[1]}), q);")
            closing.append("lemma_sum_zero_mod{}({}, q);".format(len(hl), ", ".join(f"(({cp.txt()}) * (({wl[1]}) - ({wr[1]})))" for hi, wl, wr, cp in hl)))
            closing.append(f"lemma_cong_from_diff({nc[1]}, {ns[1]}, q);")
            closing.append(f"assert({nc[0]} == {ns[0]});")
    params = set()
    for c, s in pairs:
        params |= dag.leaves(c) | dag.leaves(s)
    for l, r in hyps:
        params |= dag.leaves(l) | dag.leaves(r)
    if vars_order:
        plist = [v for v in vars_order if v in params] + sorted(params - set(vars_order))
    else:
        plist = sorted(params)
    req = [f"{dag.spec_txt(l)} == {dag.spec_txt(r)}" for l, r in hyps] + list(extra_requires)
    req += [f"fin({v})" for v in plist]
    head = f"proof fn {name}({', '.join(v + ': int' for v in plist)})\n"
    if req:
        head += "    requires " + ",\n        ".join(req) + ",\n"
    head += "    ensures " + ",\n        ".join(ens) + ",\n"
    body = "{\n    ax_q_pos(); let q = Q();\n    "
    body += " ".join(f"lemma_small_mod({v} as nat, q as nat);" for v in plist) + "\n    "
    body += "\n    ".join(lines + closing) + "\n}\n"
    return (head, body), plist


def random_witness(dag, c, s, hyps=(), tries=8, seed=0):
    """an assignment where code and spec polynomials differ mod Q (no hypotheses) - used for replay"""
    rnd = random.Random(seed)
    pc, ps = dag.poly(c), dag.poly(s)
    vs = sorted(pc.vars() | ps.vars())
    for _ in range(tries):
        env = {v: rnd.randrange(Q) for v in vs}
        if pc.eval(env, Q) != ps.eval(env, Q):
            return env
    return None
