"""Ring tactic: from two expression DAGs over the base-field spec ops (fadd, fsub, fmul, fneg, fdbl)
emit a Verus lemma `code_tree == spec_tree` with a guided proof (untrusted generator; Verus checks).

Proof shape per distinct DAG node n:   n == e_n % q   where e_n is the expanded integer polynomial,
using one vstd congruence lemma, and for products one isolated nonlinear fact e_a * e_b == e_n between
already expanded operands.  Both roots reduce to the same canonical polynomial text.
With hypotheses  h_l == h_r (mod q)  the difference of the two root polynomials is written as
sum cof_i * (h_l_i - h_r_i) (cofactors found by linear algebra over the monomials, in Python).
"""
from collections import defaultdict
import itertools
import random

Q = 0x1a0111ea397fe69a4b1ba7b6434bacd764774b84f38512bf6730d2a0f6b0f6241eabfffeb153ffffb9feffffffffaaab


class Poly:
    __slots__ = ('d',)

    def __init__(s, d=None):
        s.d = {k: v for k, v in (d or {}).items() if v != 0}

    @staticmethod
    def var(n):
        return Poly({((n, 1),): 1})

    @staticmethod
    def const(c):
        return Poly({(): c})

    def __add__(s, o):
        d = defaultdict(int, s.d)
        for k, v in o.d.items():
            d[k] += v
        return Poly(d)

    def __neg__(s):
        return Poly({k: -v for k, v in s.d.items()})

    def __sub__(s, o):
        return s + (-o)

    def __mul__(s, o):
        d = defaultdict(int)
        for k1, v1 in s.d.items():
            for k2, v2 in o.d.items():
                if not k1:
                    k = k2
                elif not k2:
                    k = k1
                else:
                    m = defaultdict(int)
                    for n, e in k1:
                        m[n] += e
                    for n, e in k2:
                        m[n] += e
                    k = tuple(sorted(m.items()))
                d[k] += v1 * v2
        return Poly(d)

    def __eq__(s, o):
        return s.d == o.d

    def is_zero(s):
        return not s.d

    def nterms(s):
        return len(s.d)

    def vars(s):
        return {n for k in s.d for n, _ in k}

    def eval(s, env, mod):
        t = 0
        for k, c in s.d.items():
            m = c
            for n, e in k:
                m = m * pow(env[n], e, mod) % mod
            t = (t + m) % mod
        return t

    def terms(s):
        """[(sign, abs coeff, monomial vars list)] in the order of txt()"""
        pos, neg = [], []
        for k in sorted(s.d):
            c = s.d[k]
            mv = [n for n, e in k for _ in range(e)]
            (pos if c > 0 else neg).append((1 if c > 0 else -1, abs(c), mv))
        return pos + neg

    def txt(s):
        """canonical text; negative coefficients are written as subtractions (the `(-1)*(m)` form sends
        Verus' nonlinear_arith mode into a resource-limit failure)"""
        if not s.d:
            return "0int"
        pos, neg = [], []
        for k in sorted(s.d):
            c = s.d[k]
            m = "*".join("*".join([n] * e) for n, e in k)
            a = abs(c)
            if m == "":
                t = f"({a}int)"
            elif a == 1:
                t = m
            else:
                t = f"(({a}int)*({m}))"
            (pos if c > 0 else neg).append(t)
        out = " + ".join(pos) if pos else "0int"
        for t in neg:
            out += " - " + t
        return out


def mono_txt(mv):
    return "*".join(mv)


def term_txt(a, mv):
    if not mv:
        return f"({a}int)"
    if a == 1:
        return mono_txt(mv)
    return f"(({a}int)*({mono_txt(mv)}))"


def prefix_txt(terms, k):
    """text of the first k terms exactly as Poly.txt writes them (left-assoc partial sum)"""
    if k == 0:
        return "0int"
    pos = [t for t in terms if t[0] > 0]
    out = None
    for i, (sg, a, mv) in enumerate(terms[:k]):
        t = term_txt(a, mv)
        if i == 0:
            out = t if sg > 0 else "0int - " + t
        else:
            out += (" + " if sg > 0 else " - ") + t
    return out


def _insert_proof(X, y, lines):
    """lines proving prod(X)*y == prod(insert(X,y)); returns the inserted list"""
    if y >= X[-1]:
        return X + [y]
    x = X[-1]
    Xp = X[:-1]
    if not Xp:
        lines.append(f"lemma_mul_is_commutative({x}, {y});")
        return [y, x]
    lines.append(f"lemma_mul_swap_last({mono_txt(Xp)}, {x}, {y});")
    Y = _insert_proof(Xp, y, lines)
    return Y + [x]


def mono_mul_proof(A, B, lines):
    """lines proving (prod A)*(prod B) == prod(merge); A, B non-empty sorted var lists"""
    C = list(A)
    for k, y in enumerate(B):
        if k > 0:
            lines.append(f"lemma_mul_is_associative({mono_txt(A)}, {mono_txt(B[:k])}, {y});")
        C = _insert_proof(C, y, lines)
    return C


def product_proof(p1, p2, lines, cache):
    """append lines proving (p1.txt()) * (p2.txt()) == (p1*p2).txt() using only lemma instantiations
    (distributivity, associativity, commutativity) - no nonlinear_arith."""
    t1, t2 = p1.terms(), p2.terms()
    E1, E2 = p1.txt(), p2.txt()
    if not t1 or not t2:
        lines.append(f"lemma_mul_basics({E1 if not t2 else E2});")
        return
    # distribute over the terms of p1
    n, m = len(t1), len(t2)
    allpos1 = t1[0][0] > 0
    for k in range(n, 1, -1):
        sg, a, mv = t1[k - 1]
        f = "lemma_mul_is_distributive_add_other_way" if sg > 0 else "lemma_mul_is_distributive_sub_other_way"
        lines.append(f"{f}({E2}, {prefix_txt(t1, k - 1)}, {term_txt(a, mv)});")
    if not allpos1:
        sg, a, mv = t1[0]
        lines.append(f"lemma_mul_is_distributive_sub_other_way({E2}, 0int, {term_txt(a, mv)}); lemma_mul_basics({E2});")
    def tpoly(a_, mv_):
        k = tuple(sorted({n: mv_.count(n) for n in set(mv_)}.items()))
        return Poly({k: a_})
    for (sg1, a1, mv1) in t1:
        T = term_txt(a1, mv1)
        P1 = tpoly(a1, mv1)
        for l in range(m, 1, -1):
            sg, a, mv = t2[l - 1]
            f = "lemma_mul_is_distributive_add" if sg > 0 else "lemma_mul_is_distributive_sub"
            lines.append(f"{f}({T}, {prefix_txt(t2, l - 1)}, {term_txt(a, mv)});")
        if t2[0][0] < 0:
            sg, a, mv = t2[0]
            lines.append(f"lemma_mul_is_distributive_sub({T}, 0int, {term_txt(a, mv)}); lemma_mul_basics({T});")
        for (sg2, a2, mv2) in t2:
            if not mv1 or not mv2:
                # a literal times a term: linear arithmetic, except literal*(literal*mono) nesting
                if mv1 or mv2:
                    mv = mv1 or mv2
                    lines.append(f"lemma_mul_is_associative({a1}int, {a2}int, {mono_txt(mv)}); lemma_mul_is_commutative({term_txt(a1, mv1)}, {term_txt(a2, mv2)});")
            else:
                key = (tuple(mv1), tuple(mv2))
                if key not in cache:
                    C = mono_mul_proof(mv1, mv2, lines)
                    cache[key] = C
                C = cache[key]
                lines.append(f"lemma_term_mul({a1}int, {mono_txt(mv1)}, {a2}int, {mono_txt(mv2)}, {mono_txt(C)});")
            # stepping stone: the pair product in canonical form
            lines.append(f"assert(({T}) * ({term_txt(a2, mv2)}) == {(P1 * tpoly(a2, mv2)).txt()});")
        if m > 1:
            lines.append(f"assert(({T}) * ({E2}) == {(P1 * p2).txt()});")


class Dag:
    """nodes: list of ['v',name] | ['c',text] | [op,a(,b)]"""

    def __init__(self, nodes, const_vals=None):
        self.nodes = nodes
        self._poly = {}
        self._txt = {}
        self.const_vals = const_vals or {}

    def poly(self, i):
        if i in self._poly:
            return self._poly[i]
        # iterative post-order to avoid recursion limits
        stack = [i]
        while stack:
            j = stack[-1]
            if j in self._poly:
                stack.pop()
                continue
            n = self.nodes[j]
            kids = [k for k in n[1:] if isinstance(k, int)]
            todo = [k for k in kids if k not in self._poly]
            if todo:
                stack.extend(todo)
                continue
            op = n[0]
            if op == 'v':
                p = Poly.var(n[1])
            elif op == 'c':
                p = Poly.const(int(n[1])) if n[1].lstrip('-').isdigit() else Poly.var(n[1])
            elif op == 'add':
                p = self._poly[n[1]] + self._poly[n[2]]
            elif op == 'sub':
                p = self._poly[n[1]] - self._poly[n[2]]
            elif op == 'mul':
                p = self._poly[n[1]] * self._poly[n[2]]
            elif op == 'neg':
                p = -self._poly[n[1]]
            elif op == 'dbl':
                p = self._poly[n[1]] + self._poly[n[1]]
            else:
                raise ValueError(op)
            self._poly[j] = p
            stack.pop()
        return self._poly[i]

    def spec_txt(self, i):
        """Verus term text (fully expanded tree)"""
        if i in self._txt:
            return self._txt[i]
        n = self.nodes[i]
        op = n[0]
        if op == 'v':
            t = n[1]
        elif op == 'c':
            t = {'0': 'fzero()', '1': 'fone()'}.get(n[1], n[1] + ('' if not n[1].lstrip('-').isdigit() else 'int'))
        else:
            f = {'add': 'fadd', 'sub': 'fsub', 'mul': 'fmul', 'neg': 'fneg', 'dbl': 'fdbl'}[op]
            t = f"{f}({', '.join(self.spec_txt(k) for k in n[1:])})"
        self._txt[i] = t
        return t

    def leaves(self, i, acc=None):
        acc = set() if acc is None else acc
        seen = set()
        stack = [i]
        while stack:
            j = stack.pop()
            if j in seen:
                continue
            seen.add(j)
            n = self.nodes[j]
            if n[0] == 'v' or (n[0] == 'c' and not n[1].lstrip('-').isdigit()):
                acc.add(n[1])
            else:
                stack.extend(k for k in n[1:] if isinstance(k, int))
        return acc

    def size(self, i):
        seen = set()
        stack = [i]
        while stack:
            j = stack.pop()
            if j in seen:
                continue
            seen.add(j)
            stack.extend(k for k in self.nodes[j][1:] if isinstance(k, int))
        return len(seen)


class IdentityFalse(Exception):
    def __init__(self, msg, witness=None):
        super().__init__(msg)
        self.witness = witness


def _solve_sparse(rows, rhs, nunk):
    """rows: dict mono -> dict(unknown index -> int coeff); rhs: dict mono -> int. exact solution with free vars = 0,
    or None.  Gaussian elimination on sparse rows with Fractions."""
    from fractions import Fraction
    eqs = []
    for m in set(rows) | set(rhs):
        r = {k: Fraction(v) for k, v in rows.get(m, {}).items() if v}
        eqs.append([r, Fraction(rhs.get(m, 0))])
    piv = {}
    for r, b in eqs:
        # reduce by existing pivots
        for c in list(r.keys()):
            if c in piv and c in r:
                pr, pb = piv[c]
                f = r[c]
                for k, v in pr.items():
                    nv = r.get(k, 0) - f * v
                    if nv == 0:
                        r.pop(k, None)
                    else:
                        r[k] = nv
                b -= f * pb
        if not r:
            if b != 0:
                return None
            continue
        c = min(r.keys())
        pv = r[c]
        r = {k: v / pv for k, v in r.items()}
        b = b / pv
        # eliminate c from existing pivots
        for c2, (pr, pb) in list(piv.items()):
            if c in pr:
                f = pr[c]
                for k, v in r.items():
                    nv = pr.get(k, 0) - f * v
                    if nv == 0:
                        pr.pop(k, None)
                    else:
                        pr[k] = nv
                piv[c2] = (pr, pb - f * b)
        piv[c] = (r, b)
    sol = [Fraction(0)] * nunk
    for c, (pr, pb) in piv.items():
        sol[c] = pb  # free variables are 0
    if any(x.denominator != 1 for x in sol):
        return None
    return [int(x) for x in sol]


def find_cofactors(diff, hyps, max_unknowns=600):
    """diff, hyps: Poly.  Find polys c_i with diff == sum c_i*hyps_i (integer coefficients).
    Stage 1: constant cofactors.  Stage 2: cofactor monomials = quotients of diff monomials by hyp monomials
    (closed under one more round), solved as a sparse linear system."""
    if diff.is_zero():
        return [Poly() for _ in hyps]
    # ---- stage 1: constants
    rows = defaultdict(dict)
    for hi, h in enumerate(hyps):
        for m, c in h.d.items():
            rows[m][hi] = c
    sol = _solve_sparse(rows, diff.d, len(hyps))
    if sol is not None:
        return [Poly({(): c}) for c in sol]

    def mono_div(m, h):
        md = dict(m)
        for n, e in h:
            if md.get(n, 0) < e:
                return None
            md[n] -= e
        return tuple(sorted((n, e) for n, e in md.items() if e))
    cands = []
    for hi, h in enumerate(hyps):
        cs = set()
        frontier = set(diff.d.keys())
        for _round in range(2):
            newc = set()
            for m in frontier:
                for hm in h.d:
                    qm = mono_div(m, hm)
                    if qm is not None:
                        newc.add(qm)
            newc -= cs
            cs |= newc
            frontier = set()
            for cm in newc:
                for hm in h.d:
                    frontier |= set((Poly({cm: 1}) * Poly({hm: 1})).d.keys())
            frontier -= set(diff.d.keys())
            if not frontier or len(cs) > max_unknowns:
                break
        cands.append(sorted(cs))
    unknowns = [(hi, cm) for hi, cs in enumerate(cands) for cm in cs]
    if not unknowns or len(unknowns) > max_unknowns:
        return None
    rows = defaultdict(dict)
    for ui, (hi, cm) in enumerate(unknowns):
        prod = Poly({cm: 1}) * hyps[hi]
        for m, c in prod.d.items():
            rows[m][ui] = rows[m].get(ui, 0) + c
    sol = _solve_sparse(rows, diff.d, len(unknowns))
    if sol is None:
        return None
    out = [defaultdict(int) for _ in hyps]
    for (hi, cm), v in zip(unknowns, sol):
        out[hi][cm] += v
    return [Poly(o) for o in out]


def emit_lemma(name, dag, pairs, hyps=(), extra_requires=(), vars_order=None):
    """pairs: list of (code_root, spec_root) node ids; hyps: list of (lhs_root, rhs_root).
    Returns (lemma_text, params list).  Raises IdentityFalse if some pair is not an identity
    (modulo the hypotheses)."""
    lines = []
    seen = {}
    need_fin = set()
    mono_cache = {}
    sublemmas = []

    def mono_cache_local():
        return {}

    def walk(root):
        # iterative post-order
        stack = [root]
        while stack:
            j = stack[-1]
            if j in seen:
                stack.pop()
                continue
            n = dag.nodes[j]
            kids = [k for k in n[1:] if isinstance(k, int)]
            todo = [k for k in kids if k not in seen]
            if todo:
                stack.extend(todo)
                continue
            stack.pop()
            op = n[0]
            if op == 'v' or op == 'c':
                t = dag.spec_txt(j)
                seen[j] = (t, dag.poly(j).txt(), True)
                continue
            ks = [seen[k] for k in kids]
            i = len(seen)
            nn, ee = f"n{i}", f"e{i}"
            f = {'add': 'fadd', 'sub': 'fsub', 'mul': 'fmul', 'neg': 'fneg', 'dbl': 'fdbl'}[op]
            lines.append(f"let {nn} = {f}({', '.join(x[0] for x in ks)});")
            lines.append(f"let {ee} = {dag.poly(j).txt()};")
            inner = []
            if op == 'mul':
                (n1, e1, _), (n2, e2, _) = ks
                pl = []
                p1, p2 = dag.poly(kids[0]), dag.poly(kids[1])
                product_proof(p1, p2, pl, mono_cache_local())
                pv = sorted(p1.vars() | p2.vars())
                pname = f"{name}_prod{len(sublemmas)}"
                sublemmas.append(f"proof fn {pname}({', '.join(v + ': int' for v in pv)})\n    ensures ({p1.txt()}) * ({p2.txt()}) == {(p1 * p2).txt()}\n{{ " + "\n  ".join(pl) + " }\n")
                inner.append(f"{pname}({', '.join(pv)});")
                inner.append(f"assert(({e1}) * ({e2}) == {ee});")
                inner.append(f"lemma_mul_mod_noop_general({e1}, {e2}, q);")
            elif op == 'add':
                inner.append(f"lemma_add_mod_noop({ks[0][1]}, {ks[1][1]}, q);")
                inner.append(f"assert(({ks[0][1]}) + ({ks[1][1]}) == {ee});")
            elif op == 'sub':
                inner.append(f"lemma_sub_mod_noop({ks[0][1]}, {ks[1][1]}, q);")
                inner.append(f"assert(({ks[0][1]}) - ({ks[1][1]}) == {ee});")
            elif op == 'neg':
                inner.append(f"lemma_sub_mod_noop(0, {ks[0][1]}, q);")
                inner.append(f"lemma_small_mod(0, q as nat);")
                inner.append(f"assert(0 - ({ks[0][1]}) == {ee});")
            elif op == 'dbl':
                inner.append(f"lemma_add_mod_noop({ks[0][1]}, {ks[0][1]}, q);")
                inner.append(f"assert(({ks[0][1]}) + ({ks[0][1]}) == {ee});")
            lines.append(f"assert({nn} == ({ee}) % q) by {{ " + "\n        ".join(inner) + " }")
            seen[j] = (nn, ee, False)
        return seen[root]

    hyp_polys = [dag.poly(l) - dag.poly(r) for l, r in hyps]
    ens = []
    closing = []
    for (c, s) in pairs:
        pc, ps = dag.poly(c), dag.poly(s)
        diff = pc - ps
        cof = None
        if not diff.is_zero():
            if hyp_polys:
                cof = find_cofactors(diff, hyp_polys)
            if cof is None:
                raise IdentityFalse(f"{name}: output is not identically equal to the spec", witness=(c, s))
        ens.append(f"{dag.spec_txt(c)} == {dag.spec_txt(s)}")
        if dag.spec_txt(c) == dag.spec_txt(s):
            continue
        nc = walk(c)
        ns = walk(s)
        for (nm, e, leaf), root in ((nc, c), (ns, s)):
            if leaf:
                need_fin.add(nm)
        if cof is None:
            closing.append(f"assert({nc[0]} == {ns[0]});" if not (nc[2] or ns[2]) else
                           f"lemma_small_mod_any({nc[1] if nc[2] else ns[1]}, q); assert({nc[0]} == {ns[0]});")
        else:
            # (pc - ps) == sum cof_i * hyp_i  and each hyp_i % q == 0
            hl = []
            for hi, ((l, r), cp) in enumerate(zip(hyps, cof)):
                if cp.is_zero():
                    continue
                wl, wr = walk(l), walk(r)
                for (nm, e, leaf) in (wl, wr):
                    if leaf:
                        need_fin.add(nm)
                hl.append((hi, wl, wr, cp))
            terms = " + ".join(f"(({cp.txt()}) * (({wl[1]}) - ({wr[1]})))" for hi, wl, wr, cp in hl)
            k = len(closing)
            closing.append(f"let dlt{k} = ({nc[1]}) - ({ns[1]});")
            for hi, wl, wr, cp in hl:
                hd = dag.poly(hyps[hi][0]) - dag.poly(hyps[hi][1])
                closing.append(f"assert(({wl[1]}) - ({wr[1]}) == {hd.txt()});")
                pl = []
                product_proof(cp, hd, pl, {})
                pv = sorted(cp.vars() | hd.vars())
                pname = f"{name}_prod{len(sublemmas)}"
                sublemmas.append(f"proof fn {pname}({', '.join(v + ': int' for v in pv)})\n    ensures ({cp.txt()}) * ({hd.txt()}) == {(cp * hd).txt()}\n{{ " + "\n  ".join(pl) + " }\n")
                closing.append(f"{pname}({', '.join(pv)});")
                closing.append(f"assert(({cp.txt()}) * (({wl[1]}) - ({wr[1]})) == {(cp * hd).txt()});")
            closing.append(f"assert(dlt{k} == {terms});")
            for hi, wl, wr, cp in hl:
                closing.append(f"lemma_cong_zero_mul(({cp.txt()}), ({wl[1]}), ({wr[1]}), q);")
            tl = [f"(({cp.txt()}) * (({wl[1]}) - ({wr[1]})))" for hi, wl, wr, cp in hl]
            acc = tl[0]
            for t in tl[1:]:
                closing.append(f"lemma_sum_zero_mod2({acc}, {t}, q);")
                acc = acc + " + " + t
            closing.append(f"lemma_cong_from_diff({nc[1]}, {ns[1]}, q);")
            closing.append(f"assert({nc[0]} == {ns[0]});")
    params = set()
    for c, s in pairs:
        params |= dag.leaves(c) | dag.leaves(s)
    for l, r in hyps:
        params |= dag.leaves(l) | dag.leaves(r)
    if vars_order:
        plist = [v for v in vars_order if v in params] + sorted(params - set(vars_order))
    else:
        plist = sorted(params)
    req = [f"{dag.spec_txt(l)} == {dag.spec_txt(r)}" for l, r in hyps] + list(extra_requires)
    req += [f"fin({v})" for v in plist]
    head = f"proof fn {name}({', '.join(v + ': int' for v in plist)})\n"
    if req:
        head += "    requires " + ",\n        ".join(req) + ",\n"
    head += "    ensures " + ",\n        ".join(ens) + ",\n"
    body = "{\n    ax_q_pos(); let q = Q(); lemma_small_mod(0, q as nat); lemma_small_mod(1, q as nat);\n    "
    body += " ".join(f"lemma_small_mod({v} as nat, q as nat);" for v in plist) + "\n    "
    body += "\n    ".join(lines + closing) + "\n}\n" + "\n".join(sublemmas)
    return (head, body), plist


def random_witness(dag, c, s, hyps=(), tries=8, seed=0):
    """an assignment where code and spec polynomials differ mod Q (no hypotheses) - used for replay"""
    rnd = random.Random(seed)
    pc, ps = dag.poly(c), dag.poly(s)
    vs = sorted(pc.vars() | ps.vars())
    for _ in range(tries):
        env = {v: rnd.randrange(Q) for v in vs}
        if pc.eval(env, Q) != ps.eval(env, Q):
            return env
    return None


def path_witness(dag, c, s, path, tries=16, seed=0):
    """an assignment satisfying the path's taken-true leaf equalities (x == 0 / x == y on leaves) where
    code and spec differ mod Q.  Hypotheses from inverse() calls are solved when linear in the fresh var."""
    rnd = random.Random(seed)
    pc, ps = dag.poly(c), dag.poly(s)
    vs = set(pc.vars() | ps.vars())
    eqs = []
    for cnd in path.get('conds', []):
        if cnd['taken']:
            eqs += [tuple(e) for e in cnd['eqs']]
    hyps = [tuple(h) for h in path.get('hyps', [])]
    for l, r in eqs + hyps:
        vs |= dag.poly(l).vars() | dag.poly(r).vars()
    fresh = [n for n, _ in path.get('fresh', [])]
    for _ in range(tries):
        env = {v: rnd.randrange(1, Q) for v in vs}
        ok = True
        # leaf equalities: force
        for l, r in eqs:
            pl, pr = dag.poly(l), dag.poly(r)
            if len(pl.vars()) == 1 and pl.nterms() == 1 and list(pl.d.values()) == [1] and sum(e for _, e in list(pl.d)[0]) == 1:
                v = next(iter(pl.vars()))
                env[v] = pr.eval(env, Q)
            elif pl.eval(env, Q) != pr.eval(env, Q):
                ok = False
        # hypotheses from inverse() callees are linear in the fresh variables: solve for them mod Q
        if hyps and ok:
            prefixes = [n for n in fresh]
            unk = sorted(v for v in vs if any(v == p or v.startswith(p + '__') for p in prefixes))
            hp = [dag.poly(l) - dag.poly(r) for l, r in hyps]
            if unk:
                base = dict(env)
                for u_ in unk:
                    base[u_] = 0
                rhs = [(-h.eval(base, Q)) % Q for h in hp]
                M = []
                for h, b0 in zip(hp, rhs):
                    row = []
                    for u_ in unk:
                        e2 = dict(base); e2[u_] = 1
                        row.append((h.eval(e2, Q) + b0) % Q)
                    M.append(row + [b0])
                # gaussian elimination mod Q
                r_ = 0
                piv = []
                for c_ in range(len(unk)):
                    pr = next((i for i in range(r_, len(M)) if M[i][c_] % Q), None)
                    if pr is None:
                        continue
                    M[r_], M[pr] = M[pr], M[r_]
                    inv = pow(M[r_][c_], Q - 2, Q)
                    M[r_] = [x * inv % Q for x in M[r_]]
                    for i in range(len(M)):
                        if i != r_ and M[i][c_]:
                            f = M[i][c_]
                            M[i] = [(x - f * y) % Q for x, y in zip(M[i], M[r_])]
                    piv.append((r_, c_))
                    r_ += 1
                if any(all(x == 0 for x in row[:-1]) and row[-1] for row in M):
                    ok = False
                else:
                    for rr, c_ in piv:
                        env[unk[c_]] = M[rr][-1]
                    for u_ in unk:
                        env.setdefault(u_, 0)
                        if u_ not in [unk[c_] for _, c_ in piv]:
                            env[u_] = 0
            if ok and any(h.eval(env, Q) for h in hp):
                ok = False
        if ok and pc.eval(env, Q) != ps.eval(env, Q):
            return env
    return None
