import sys
sys.set_int_max_str_digits(0)
"""Scalar / exponent tracking generator (untrusted): replays the straight-line chain statements with Python
integers and inserts `assert(X.view == f(K, base))` stepping stones after each statement it understands.
A statement it does not understand stops the tracking of the variables it mentions (no assert is emitted for
them any more); nothing is ever changed in the executable text."""
import re
from .rs import split_statements


class Tracker:
    def __init__(self, base_expr, fmt, double='double', add='add_assign', sub='sub_assign', calls=None, modulus=None, mul_lemma='ax_smul_mul',
                 scale_ops=None, argscale_ops=None, call_handlers=None, int_vars=None):
        """fmt(K) -> spec text for the value with multiplier K relative to base; calls: {fn name: multiplier K}
        for two-argument chain functions f(out, in)."""
        self.fmt = fmt
        self.double, self.add, self.sub = double, add, sub
        self.calls = calls or {}
        self.modulus = modulus
        self.base_expr = base_expr
        self.mul_lemma = mul_lemma
        self.hint = None
        self.scale_ops = dict(scale_ops or {})        # method() -> factor
        self.argscale_ops = dict(argscale_ops or {})  # method(lit) -> factor(lit)
        self.call_handlers = dict(call_handlers or {})  # fn name -> handler(args, env, ints) -> (target, K, hint) or None
        self.ints = dict(int_vars or {})              # concrete machine-integer variables (e.g. the u64 x of exp_by_x)
        self.extra = []
        self.post_extra = []
        self.reduce_hint = None

    def run(self, body, init, view):
        """body: block text with braces; init: {var: K}.  Returns new body text."""
        env = dict(init)
        stmts = split_statements(body)
        out = []
        last = 1
        for a, b in stmts:
            st = body[a:b]
            out.append(body[last:a])
            out.append(st)
            last = b
            s = st.strip().rstrip(';').strip()
            self.hint = None
            self.extra = []
            self.post_extra = []
            tgt = self.step(s, env)
            out.extend(self.extra)
            if tgt is not None and env.get(tgt) is not None:
                if self.hint and self.mul_lemma:
                    out.append(f" proof {{ {self.mul_lemma}({self.hint[0]}int, {self.hint[1]}int, {self.base_expr}); }}")
                out.extend(self.post_extra)
                out.append(f" assert({tgt}.{view} == {self.fmt(env[tgt])});")
        out.append(body[last:])
        self.last_env = dict(env)
        return body[0] + ''.join(out)

    def norm(self, k):
        if not self.modulus:
            return k
        r = k % self.modulus
        if r != k and self.reduce_hint:
            self.post_extra.append(self.reduce_hint(k, r))
        return r

    def step(self, s, env):
        def name(e):
            e = e.strip()
            e = re.sub(r'^[&*]+\s*(mut\s+)?', '', e).strip()
            return e if re.fullmatch(r'[A-Za-z_][A-Za-z0-9_]*', e) else None
        m = re.fullmatch(r'(?:let\s+(?:mut\s+)?)?\*?\s*([A-Za-z_][A-Za-z0-9_]*)\s*=\s*(.+)', s, re.S)
        if m and name(m.group(2)) is not None:
            env[m.group(1)] = env.get(name(m.group(2)))
            return m.group(1)
        m = re.fullmatch(r'([A-Za-z_][A-Za-z0-9_]*)\s*\.\s*([a-z_]+)\s*\((.*)\)', s, re.S)
        if m:
            x, op, arg = m.group(1), m.group(2), m.group(3).strip()
            if op == self.double and not arg:
                env[x] = None if env.get(x) is None else self.norm(2 * env[x])
                return x
            if op in self.scale_ops and not arg:
                env[x] = None if env.get(x) is None else self.norm(self.scale_ops[op] * env[x])
                return x
            if op in self.argscale_ops and re.fullmatch(r'\d+', arg):
                env[x] = None if env.get(x) is None else self.norm(self.argscale_ops[op](int(arg)) * env[x])
                return x
            if op in (self.add, self.sub) and name(arg) is not None:
                y = env.get(name(arg))
                env[x] = None if (env.get(x) is None or y is None) else self.norm(env[x] + (y if op == self.add else -y))
                return x
            env[x] = None
            return None
        m = re.match(r'let\s+ghost\s+\w+\s*=.*?;\s*(for\s+(_i\d+)\s+in\s+(\d+)\s*\.\.\s*(\d+)[^{]*\{\s*([A-Za-z_][A-Za-z0-9_]*)\s*\.\s*' + self.double +
                     r'\s*\(\s*\)\s*;\s*\})', s, re.S)
        if not m:
            m2 = re.match(r'(for\s+(_i\d+)\s+in\s+(\d+)\s*\.\.\s*(\d+)[^{]*\{\s*([A-Za-z_][A-Za-z0-9_]*)\s*\.\s*' + self.double + r'\s*\(\s*\)\s*;\s*\})', s, re.S)
            m = m2
        if m:
            x = m.group(5)
            n = int(m.group(4)) - int(m.group(3))
            if env.get(x) is not None:
                self.hint = (1 << n, env[x])
            env[x] = None if env.get(x) is None else self.norm(env[x] * (1 << n))
            return x
        # machine-integer variables:  let mut x = CONST;  x >>= n;  x <<= n;
        m = re.fullmatch(r'([A-Za-z_][A-Za-z0-9_]*)\s*(>>|<<)=\s*(\d+)', s)
        if m and m.group(1) in self.ints and self.ints[m.group(1)] is not None:
            x, op, n = m.group(1), m.group(2), int(m.group(3))
            old = self.ints[x]
            new = (old >> n) if op == '>>' else ((old << n) & 0xFFFFFFFFFFFFFFFF)
            self.ints[x] = new
            self.extra.append(f" proof {{ assert({old}u64 {op} {n}u64 == {new}u64) by(bit_vector); }} assert({x} == {new}u64);")
            return None
        m = re.fullmatch(r'([A-Za-z_][A-Za-z0-9_]*)\s*\((.*)\)', s, re.S)
        if m and m.group(1) in self.call_handlers:
            args = [a.strip() for a in m.group(2).split(',')]
            r = self.call_handlers[m.group(1)](args, env, self.ints, name)
            if r is not None:
                tgt, k, hint = r
                env[tgt] = k
                self.hint = hint
                return tgt
        if m and m.group(1) in self.calls:
            args = [a.strip() for a in m.group(2).split(',')]
            if len(args) == 2 and name(args[0]) and name(args[1]):
                y = env.get(name(args[1]))
                if y is not None:
                    self.hint = (self.calls[m.group(1)], y)
                env[name(args[0])] = None if y is None else self.norm(self.calls[m.group(1)] * y)
                return name(args[0])
        # unknown statement: forget every variable it may modify (assigned, borrowed mutably, passed by name to a
        # call, or receiver of a method that is not known to be read-only)
        RO = r'(is_zero|is_normalized|into_affine|into_projective|pt|m|v|eq|ne|clone|is_some|is_none)'
        for v in list(env):
            ve = re.escape(v)
            if (re.search(r'&\s*mut\s+' + ve + r'\b', s) or re.search(r'(?<![=!<>])\*?\b' + ve + r'\s*=(?!=)', s)
                    or re.search(r'\b' + ve + r'\s*\.\s*(?!' + RO + r'\s*\()[a-z_0-9]+\s*\(', s)):
                env[v] = None
        return None
