"""Refutation search on the REAL code (never used to pass a check): when an obligation fails or a unit is undecided,
structured inputs are run through the compiled crate (replay binary) and judged by an independent big-integer
reference of BLS12-381 written here from the definitions.  A disagreement is a confirmed violation with its input."""
import os, json, subprocess, random
from . import replay as rp

Q = 0x1a0111ea397fe69a4b1ba7b6434bacd764774b84f38512bf6730d2a0f6b0f6241eabfffeb153ffffb9feffffffffaaab
R = 0x73eda753299d7d483339d80809a1d80553bda402fffe5bfeffffffff00000001


# ---- reference arithmetic ---------------------------------------------------------------------------------------------
class F1:
    zero, one = 0, 1
    b = 4
    @staticmethod
    def add(a, b): return (a + b) % Q
    @staticmethod
    def sub(a, b): return (a - b) % Q
    @staticmethod
    def mul(a, b): return a * b % Q
    @staticmethod
    def neg(a): return (-a) % Q
    @staticmethod
    def inv(a): return pow(a, Q - 2, Q)
    @staticmethod
    def sqrt(a):
        r = pow(a, (Q + 1) // 4, Q)
        return r if r * r % Q == a % Q else None
    @staticmethod
    def rand(rnd): return rnd.randrange(Q)
    @staticmethod
    def flat(a): return [a]
    @staticmethod
    def gt(a, b): return a > b          # canonical integer order


class F2:
    zero, one = (0, 0), (1, 0)
    b = (4, 4)
    @staticmethod
    def add(a, b): return ((a[0] + b[0]) % Q, (a[1] + b[1]) % Q)
    @staticmethod
    def sub(a, b): return ((a[0] - b[0]) % Q, (a[1] - b[1]) % Q)
    @staticmethod
    def mul(a, b): return ((a[0] * b[0] - a[1] * b[1]) % Q, (a[0] * b[1] + a[1] * b[0]) % Q)
    @staticmethod
    def neg(a): return ((-a[0]) % Q, (-a[1]) % Q)
    @staticmethod
    def inv(a):
        n = pow((a[0] * a[0] + a[1] * a[1]) % Q, Q - 2, Q)
        return (a[0] * n % Q, (-a[1]) * n % Q)
    @staticmethod
    def sqrt(a):
        if a == (0, 0):
            return (0, 0)
        # a = x^2: norm-based method
        n = (a[0] * a[0] + a[1] * a[1]) % Q
        s = F1.sqrt(n)
        if s is None:
            return None
        for sg in (s, (-s) % Q):
            t = (a[0] + sg) * pow(2, Q - 2, Q) % Q
            x0 = F1.sqrt(t)
            if x0 is not None and x0 != 0:
                x1 = a[1] * pow(2 * x0, Q - 2, Q) % Q
                if F2.mul((x0, x1), (x0, x1)) == (a[0] % Q, a[1] % Q):
                    return (x0, x1)
        # purely imaginary root
        t = (-a[0]) % Q
        x1 = F1.sqrt(t)
        if x1 is not None and F2.mul((0, x1), (0, x1)) == (a[0] % Q, a[1] % Q):
            return (0, x1)
        return None
    @staticmethod
    def rand(rnd): return (rnd.randrange(Q), rnd.randrange(Q))
    @staticmethod
    def flat(a): return [a[0], a[1]]
    @staticmethod
    def gt(a, b): return (a[1], a[0]) > (b[1], b[0])     # lexicographic, u-coefficient most significant


def on_curve(F, P):
    return P is None or F.mul(P[1], P[1]) == F.add(F.mul(F.mul(P[0], P[0]), P[0]), F.b)


def ec_add(F, P, Qp):
    if P is None: return Qp
    if Qp is None: return P
    if P[0] == Qp[0]:
        if P[1] != Qp[1] or P[1] == F.zero: return None
        lam = F.mul(F.mul((3 % Q) if F is F1 else (3, 0), F.mul(P[0], P[0])), F.inv(F.add(P[1], P[1])))
    else:
        lam = F.mul(F.sub(Qp[1], P[1]), F.inv(F.sub(Qp[0], P[0])))
    x3 = F.sub(F.sub(F.mul(lam, lam), P[0]), Qp[0])
    return (x3, F.sub(F.mul(lam, F.sub(P[0], x3)), P[1]))


def ec_neg(F, P): return None if P is None else (P[0], F.neg(P[1]))


def ec_mul(F, k, P):
    Rr, A = None, P
    while k:
        if k & 1: Rr = ec_add(F, Rr, A)
        A = ec_add(F, A, A)
        k >>= 1
    return Rr


def rand_point(F, rnd):
    while True:
        x = F.rand(rnd)
        y = F.sqrt(F.add(F.mul(F.mul(x, x), x), F.b))
        if y is not None:
            return (x, y)


def jac(F, P, lam=None):
    """a Jacobian representative (lam^2 x, lam^3 y, lam) of P"""
    if P is None:
        return (F.one, F.one, F.zero)
    lam = F.one if lam is None else lam
    l2 = F.mul(lam, lam)
    return (F.mul(P[0], l2), F.mul(P[1], F.mul(l2, lam)), lam)


def hexv(F, v):
    return [hex(x) for x in F.flat(v)]


# ---- replay driver ----------------------------------------------------------------------------------------------------
EVALS = [0]
THOROUGH = [False]          # set by check.py for --tier thorough: larger structured input sets in the stand-ins


def run_bin(binp, label, kv):
    EVALS[0] += 1
    cmd = [binp, label] + [f"{k}={v}" for k, v in kv.items()]
    r = subprocess.run(cmd, capture_output=True, text=True, timeout=120)
    try:
        return json.loads(r.stdout), ' '.join(cmd)
    except Exception:
        return dict(error=(r.stdout + r.stderr)[-300:]), ' '.join(cmd)


def pt_args(F, name, J):
    kv = {}
    for c, v in zip('xyz', J):
        fl = F.flat(v)
        if len(fl) == 1:
            kv[f"{name}__{c}"] = hex(fl[0])
        else:
            kv[f"{name}__{c}__c0"] = hex(fl[0]); kv[f"{name}__{c}__c1"] = hex(fl[1])
    return kv


def out_point(F, out):
    o = out.get('out', [])
    if o == ['inf']:
        return None
    vals = [int(x, 16) for x in o]
    return (vals[0], vals[1]) if F is F1 else ((vals[0], vals[1]), (vals[2], vals[3]))


def curve_probes(F, label, rnd):
    """(op, kv, expected point or bool) for the group law and scalar multiplication"""
    P, Qp = rand_point(F, rnd), rand_point(F, rnd)
    lam = F.rand(rnd)
    O = None
    cases = []
    for op, A, B, la, lb in (('add', P, Qp, lam, None), ('add', P, P, None, None), ('add', P, P, lam, None), ('add', P, ec_neg(F, P), lam, None), ('add', P, O, lam, None),
                             ('add', O, P, None, lam), ('add', O, O, None, None), ('sub', P, Qp, None, lam), ('sub', P, P, lam, None),
                             ('add_mixed', P, Qp, lam, None), ('add_mixed', P, P, lam, None), ('add_mixed', P, ec_neg(F, P), lam, None), ('add_mixed', O, P, None, None), ('add_mixed', P, O, lam, None)):
        kv = dict(op=op); kv.update(pt_args(F, 'p', jac(F, A, la))); kv.update(pt_args(F, 'q', jac(F, B, lb)))
        exp = ec_add(F, A, ec_neg(F, B) if op == 'sub' else B)
        cases.append((op, kv, exp))
    for op, A, la in (('double', P, lam), ('double', O, None), ('negate', P, lam)):
        kv = dict(op=op); kv.update(pt_args(F, 'p', jac(F, A, la)))
        cases.append((op, kv, ec_add(F, A, A) if op == 'double' else ec_neg(F, A)))
    for A, B, la, lb, exp in ((P, P, lam, None, True), (P, Qp, None, None, False), (O, O, None, None, True), (P, O, None, None, False), (P, ec_neg(F, P), lam, None, False)):
        kv = dict(op='eq'); kv.update(pt_args(F, 'p', jac(F, A, la))); kv.update(pt_args(F, 'q', jac(F, B, lb)))
        cases.append(('eq', kv, exp))
    # scalar multiplication: structured scalars (boundary of the group order, single bits, word / chunk boundaries)
    ks = [0, 1, 2, 3, R - 1, R, R + 1, R + 2, 2 * R + 4, 2 * R + 5, (1 << 255) - 1, 1 << 255, (1 << 256) - 1, (1 << 64) - 1, 1 << 64, (1 << 128) - 1, (1 << 32), (1 << 31) + (1 << 63),
          0x1234ffffffffffffffffffff5, ((1 << 64) - 1) << 100 | 1]
    if THOROUGH[0]:
        ks += [1 << b for b in (31, 33, 63, 65, 95, 127, 129, 191, 193, 223, 254)] + [(1 << b) - 1 for b in (33, 65, 97, 129, 193, 225)] + [rnd.randrange(1 << 256) for _ in range(6)]
    for k in ks:
        for op in ('mul_assign', 'affine_mul', 'precomp_256'):
            kv = dict(op=op, k=hex(k)); kv.update(pt_args(F, 'p', jac(F, P, lam if op == 'mul_assign' else None)))
            cases.append((op, kv, ec_mul(F, k, P)))
    # wNAF contexts (C02): both staging orders, with and without a reuse history on the same context; table sizes from n
    Rs = rand_point(F, rnd)
    hs = ['', hex(3), hex(R - 1), hex((1 << 61) - 1) + ',' + hex(5), hex(0), hex((1 << 200) + 12345)]
    for k in [0, 1, 2, 3, 5, 7, 8, 15, 16, 17, (1 << 33) - 1, 1 << 34, (1 << 64) - 1, 1 << 64, (1 << 130) + 1, R - 1, R, (1 << 255) - 1, 0xfedcba9876543210fedcba9876543210f, ((1 << 64) - 1) << 100 | 1]:
        for op in ('wnaf_sb', 'wnaf_bs', 'wnaf_staged'):
            for h in (hs if k in (0, 1, 5, R - 1, (1 << 130) + 1) else hs[:2]):
                for n in ((1, 5, 100000) if (op != 'wnaf_sb' and h == '' and k in (3, R - 1, (1 << 255) - 1)) else (1,)):
                    kv = dict(op=op, k=hex(k), k0=h, n=str(n)); kv.update(pt_args(F, 'p', jac(F, Rs, lam)))
                    cases.append((op, kv, ec_mul(F, k, Rs)))
                    if h and op != 'wnaf_staged':          # the same history on a DIFFERENT base point (a stale table must not survive)
                        kv2 = dict(kv); kv2.update(pt_args(F, 'q', jac(F, Qp, None)))
                        cases.append((op, kv2, ec_mul(F, k, Rs)))
    for k in ks:
        kv = dict(op='precomp_3', k=hex(k)); kv.update(pt_args(F, 'p', jac(F, P, None)))
        cases.append(('precomp_3', kv, ec_mul(F, k, P)))
    return cases


def batch_probes(F, rnd):
    """inputs of batch_normalization: every mix of identity / already normalized (Z = 1) / general Jacobian representatives, in every order"""
    P1, P2, P3 = rand_point(F, rnd), rand_point(F, rnd), rand_point(F, rnd)
    kinds = {'O': (None, None), 'N': (P1, None), 'J': (P2, F.rand(rnd)), 'K': (P3, F.rand(rnd)), 'M': (P3, None)}
    shapes = ['', 'O', 'N', 'J', 'OO', 'NJ', 'JN', 'OJ', 'JO', 'ON', 'NO', 'JK', 'NM', 'JNK', 'NJO', 'ONJ', 'JON', 'NJM', 'JKN', 'OJNKM', 'NOJOM', 'MJKNO', 'JNKOM']
    if THOROUGH[0]:
        shapes += [''.join(rnd.choice('ONJKM') for _ in range(rnd.randrange(2, 9))) for _ in range(40)]
    cases = []
    for sh in shapes:
        kv = dict(op='batch_norm', n=str(len(sh)))
        exp = []
        for i, ch in enumerate(sh):
            A, la = kinds[ch]
            kv.update(pt_args(F, f'p{i}', jac(F, A, la)))
            exp.append(A)
        cases.append((kv, exp))
    return cases


def refute_batch(binp):
    rnd = random.Random(17)
    for F, label in ((F1, 'G1_op'), (F2, 'G2_op')):
        w = 2 if F is F1 else 4
        for kv, exp in batch_probes(F, rnd):
            out, cmd = run_bin(binp, label, kv)
            if 'error' in out:
                continue
            o = out.get('out', [])
            act, i = [], 0
            while i < len(o):
                if o[i] in ('inf', 'notnorm'):
                    act.append(None if o[i] == 'inf' else 'not normalized'); i += 1
                else:
                    vals = [int(x, 16) for x in o[i:i + w]]
                    act.append((vals[0], vals[1]) if F is F1 else ((vals[0], vals[1]), (vals[2], vals[3]))); i += w
            if act != exp:
                return dict(function=f"{label}:batch_normalization", input=kv, actual=str(act), expected=str(exp), command=cmd)
    return None


SCALAR_OPS = ('mul_assign', 'affine_mul', 'precomp_256', 'precomp_3', 'wnaf_sb', 'wnaf_bs', 'wnaf_staged')


def refute_curve(binp, props_wanted):
    rnd = random.Random(7)
    for F, label in ((F1, 'G1_op'), (F2, 'G2_op')):
        for op, kv, exp in curve_probes(F, label, rnd):
            if op in SCALAR_OPS and 'C02' not in props_wanted and 'C10' not in props_wanted:
                continue
            if op not in SCALAR_OPS and not ({'C01', 'C14', 'C07'} & props_wanted):
                continue
            out, cmd = run_bin(binp, label, kv)
            if 'error' in out:
                continue
            if op == 'eq':
                if out.get('tag') != ('true' if exp else 'false'):
                    return dict(function=f"{label}:{op}", input=kv, actual=out.get('tag'), expected=str(exp).lower(), command=cmd)
                continue
            act = out_point(F, out)
            if act != exp:
                return dict(function=f"{label}:{op}", input=kv, actual=str(act), expected=str(exp), command=cmd)
    return None


# ---- encodings (C04 / C19) -----------------------------------------------------------------------------------------------
def be48(v): return v.to_bytes(48, 'big')


def enc(F, P, compressed):
    n = 1 if F is F1 else 2
    size = (48 if compressed else 96) * n
    if P is None:
        b = bytearray(size); b[0] |= 0x40
    else:
        coords = F.flat(P[0])[::-1] if n == 2 else F.flat(P[0])
        b = bytearray(b''.join(be48(c) for c in coords))
        if not compressed:
            ys = F.flat(P[1])[::-1] if n == 2 else F.flat(P[1])
            b += b''.join(be48(c) for c in ys)
        elif F.gt(P[1], F.neg(P[1])):
            b[0] |= 0x20
    if compressed:
        b[0] |= 0x80
    return bytes(b)


def dec_ref(F, b, compressed, checked):
    n = 1 if F is F1 else 2
    if bool(b[0] & 0x80) != compressed: return 'Mode'
    c = bytearray(b)
    if b[0] & 0x40:
        c[0] &= 0x3f
        return ('Ok', None) if not any(c) else 'Info'
    if not compressed and (b[0] & 0x20): return 'Info'
    c[0] &= 0x1f
    blocks = [int.from_bytes(c[48 * i:48 * i + 48], 'big') for i in range(len(c) // 48)]
    if any(v >= Q for v in blocks): return 'Coord'
    x = blocks[0] if n == 1 else (blocks[1], blocks[0])
    if compressed:
        y = F.sqrt(F.add(F.mul(F.mul(x, x), x), F.b))
        if y is None: return 'NotOnCurve'
        ny = F.neg(y)
        big, small = (y, ny) if F.gt(y, ny) else (ny, y)
        P = (x, big if (b[0] & 0x20) else small)
    else:
        y = blocks[1] if n == 1 else (blocks[3], blocks[2])
        P = (x, y)
        if checked and not on_curve(F, P): return 'NotOnCurve'
    if checked and ec_mul(F, R, P) is not None:
        return 'NotInSubgroup'
    return ('Ok', P)


def codec_inputs(F, rnd):
    P = rand_point(F, rnd)                                  # on the curve, almost surely not in the subgroup
    n = 1 if F is F1 else 2
    h = 0x396c8c005555e1568c00aaab0000aaab if F is F1 else 0x5d543a95414e7f1091d50792876a202cd91de4547085abaa68a205b2e5a7ddfa628f1cb4d9e82ef21537e293a6691ae1616ec6e786f0c70cf1c38e31c7238e5
    S = ec_mul(F, h, P)                                     # in the subgroup
    outs = []
    for compressed in (True, False):
        special = [] if F is F1 else [x for P2 in g2_points_real_or_imaginary_y(1) for x in (P2, ec_neg(F, P2))]
        for pt in [S, ec_neg(F, S), P, None] + special:
            e = bytearray(enc(F, pt, compressed))
            outs.append((compressed, bytes(e)))
            for bit in (0x80, 0x40, 0x20):
                m = bytearray(e); m[0] ^= bit; outs.append((compressed, bytes(m)))
            for pos in range(0, len(e), 48):                 # non-reduced coordinates / stray high bits in every 48-byte block
                for v in (Q, Q + 1, (1 << 381), (1 << 383) | 5):
                    m = bytearray(e); blk = int.from_bytes(m[pos:pos + 48], 'big')
                    keep = m[0] & 0xe0 if pos == 0 else 0
                    nv = v.to_bytes(48, 'big')
                    m[pos:pos + 48] = nv
                    if pos == 0: m[0] = (m[0] & 0x1f) | keep | (nv[0] & 0xe0 if v >= (1 << 381) else 0)
                    outs.append((compressed, bytes(m)))
                m = bytearray(e)
                if pos > 0: m[pos] |= 0x20; outs.append((compressed, bytes(m)))
            if pt is None:
                m = bytearray(e); m[-1] = 1; outs.append((compressed, bytes(m)))
                # stray payload in an infinity encoding that cancels under xor / wrapping sum (a zero test written as a fold; seed C05-6)
                for (i1, v1), (i2, v2) in (((1, 1), (2, 1)), ((len(e) - 1, 0x80), (len(e) - 2, 0x80)), ((5, 0xff), (7, 0xff)), ((3, 0x01), (4, 0xff)), ((1, 0x10), (len(e) - 1, 0x10))):
                    m = bytearray(e); m[i1] = v1; m[i2] = v2; outs.append((compressed, bytes(m)))
        for xv in range(0, 6):                               # small x: off-subgroup points, x without root
            x = xv if F is F1 else (xv, 0)
            blocks = [x] if n == 1 else [x[1], x[0]]
            e = bytearray(b''.join(be48(c) for c in blocks))
            if compressed:
                e[0] |= 0x80; outs.append((True, bytes(e)))
                e[0] |= 0x20; outs.append((True, bytes(e)))
    return outs


def encode_points(F, rnd):
    """points for the encoders: random, both roots over the same x, small x (leading zero bytes), the identity"""
    pts = [None]
    for _ in range(3):
        P = rand_point(F, rnd)
        pts += [P, ec_neg(F, P)]
    xv = 0
    found = 0
    while found < 4:
        xv += 1
        for x in ([xv] if F is F1 else [(xv, 0), (0, xv), (xv, 1)]):
            y = F.sqrt(F.add(F.mul(F.mul(x, x), x), F.b))
            if y is not None:
                pts += [(x, y), (x, F.neg(y))]
                found += 1
    if F is F2:
        for P in g2_points_real_or_imaginary_y():
            pts += [P, ec_neg(F, P)]
    return pts


def g2_points_real_or_imaginary_y(count=2):
    """points of E2 whose y lies in Fq (y.c1 == 0) or is purely imaginary (y.c0 == 0): x = a + b u with Im(x^3) = 3a^2 b - b^3 = -4,
    then x^3 + 4 + 4u = w in Fq and y = sqrt(w) or u sqrt(-w).  These decide lexicographic comparisons on one coefficient only."""
    real, imag = [], []
    inv3 = pow(3, Q - 2, Q)
    b = 0
    while (len(real) < count or len(imag) < count) and b < 2000:
        b += 1
        a2 = (b * b - 4 * pow(b, Q - 2, Q)) * inv3 % Q
        a0 = F1.sqrt(a2)
        if a0 is None:
            continue
        for a in (a0, (-a0) % Q):
            w = (a * a * a - 3 * a * b * b + 4) % Q
            if w == 0:
                continue
            r = F1.sqrt(w)
            if r is not None and len(real) < count:
                real.append(((a, b), (r, 0)))
            elif r is None and len(imag) < count:
                t = F1.sqrt((-w) % Q)
                if t is not None:
                    imag.append(((a, b), (0, t)))
    pts = real + imag
    assert all(on_curve(F2, P) for P in pts)
    return pts


def refute_encode(binp):
    rnd = random.Random(13)
    for F, g in ((F1, 'g1'), (F2, 'g2')):
        for P in encode_points(F, rnd):
            for lam in (None, F.rand(rnd)):
                for compressed in (True, False):
                    kind = g + ('c' if compressed else 'u')
                    kv = dict(kind=kind); kv.update(pt_args(F, 'p', jac(F, P, lam)))
                    out, cmd = run_bin(binp, 'encode', kv)
                    if 'error' in out:
                        continue
                    exp = enc(F, P, compressed).hex()
                    if out.get('tag') != exp:
                        return dict(function=f"encode:{kind}", input=kv, actual=out.get('tag'), expected=exp, command=cmd)
    return None


def refute_codec(binp, props_wanted):
    rnd = random.Random(11)
    if 'C05' in props_wanted:
        r = refute_encode(binp)
        if r: return r
    for F, g in ((F1, 'g1'), (F2, 'g2')):
        for compressed, b in codec_inputs(F, rnd):
            kind = g + ('c' if compressed else 'u')
            for checked in (True, False):
                if {'C04', 'C05', 'C07'} & props_wanted:
                    out, cmd = run_bin(binp, 'decode', dict(kind=kind, checked='1' if checked else '0', bytes=b.hex()))
                    if 'error' not in out:
                        exp = dec_ref(F, b, compressed, checked)
                        act = ('Ok', out_point(F, out)) if out.get('tag') == 'Ok' else out.get('tag')
                        if act != exp:
                            return dict(function=f"decode:{kind}:{'checked' if checked else 'unchecked'}", input=b.hex(), actual=str(act), expected=str(exp), command=cmd)
            if {'C19', 'C07'} & props_wanted:
                csize = 48 if F is F1 else 96
                for kindd in (g, g + 'a'):
                    for data in (b, b + b'\x01\x02', b[:-1], b[:len(b) // 2], b + b):
                        for flag in (True, False):
                            out, cmd = run_bin(binp, 'deser', dict(kind=kindd, compressed='1' if flag else '0', bytes=data.hex()))
                            if 'error' in out:
                                continue
                            size = csize if flag else 2 * csize
                            want = 'Err'
                            if len(data) >= csize and bool(data[0] & 0x80) == flag and len(data) >= size:
                                r = dec_ref(F, data[:size], flag, True)
                                if isinstance(r, tuple):
                                    want = ('Ok:%d' % size, r[1])
                            act = (out.get('tag'), out_point(F, out)) if out.get('tag', '').startswith('Ok') else 'Err'
                            if act != want:
                                return dict(function=f"deserialize:{kindd}:compressed={flag}", input=data.hex(), actual=str(act), expected=str(want), command=cmd)
    return None


def refute_okm(binp):
    rnd = random.Random(5)
    for field, L, m, half in (('fq', 64, Q, 32), ('fr', 48, R, 24)):
        blocks = [bytes(L), b'\xff' * L, (1).to_bytes(L, 'big'), rnd.randbytes(L), rnd.randbytes(L)]
        for k in (1, 2, 3, 5):
            for d in (-1, 0, 1, 7):
                for shift in (0, 8 * half, 8 * (L - 32) if L > 32 else 0):
                    v = (k * m + d) << shift
                    if 0 <= v < (1 << (8 * L)):
                        blocks.append(v.to_bytes(L, 'big'))
                    for hi in (0, 1, (1 << (8 * (L - 32))) - 1):
                        w = (hi << 256) | (k * m + d)
                        if 0 <= w < (1 << (8 * L)) and (k * m + d) < (1 << 256):
                            blocks.append(w.to_bytes(L, 'big'))
        for b in blocks:
            out, cmd = run_bin(binp, 'from_okm', dict(field=field, bytes=b.hex()))
            exp = hex(int.from_bytes(b, 'big') % m)
            act = None if 'error' in out else hex(int(out['out'][0], 16))
            if act != exp:
                return dict(function=f"{field}::from_okm", input=b.hex(), actual=str(act if act else out.get('error')), expected=exp, command=cmd)
    return None


def refute_finalexp(binp):
    rnd = random.Random(3)
    E = 3 * (Q ** 12 - 1) // R

    def f12pow(x, e):
        r = (((1, 0), (0, 0), (0, 0)), ((0, 0), (0, 0), (0, 0)))
        b = x
        while e:
            if e & 1: r = rp.f12mul(r, b)
            b = rp.f12mul(b, b)
            e >>= 1
        return r
    z2 = (0, 0)
    zero6 = (z2, z2, z2)
    cands = [(zero6, zero6), (((1, 0), z2, z2), zero6), (((2, 0), z2, z2), zero6), (((3, 5), z2, z2), zero6), (((1, 2), (3, 4), (5, 6)), zero6),
             (zero6, ((1, 0), z2, z2)), (zero6, ((7, 1), (2, 2), (0, 9)))]
    for _ in range(2):
        cands.append(tuple(tuple((rnd.randrange(Q), rnd.randrange(Q)) for _ in range(3)) for _ in range(2)))
    for x in cands:
        fl = rp.flat(x)
        kv = {}
        names = [f'self__c{k}__c{i}__c{j}' for k in range(2) for i in range(3) for j in range(2)]
        for nme, v in zip(names, fl):
            kv[nme] = hex(v)
        out, cmd = run_bin(binp, 'final_exp', kv)
        if 'error' in out:
            continue
        if not any(fl):
            if out.get('tag') != 'none':
                return dict(function='final_exponentiation', input=kv, actual=out.get('tag'), expected='None', command=cmd)
            continue
        exp = rp.flat(f12pow(x, E))
        act = [int(v, 16) for v in out.get('out', [])] if out.get('tag') == 'some' else None
        if act != exp:
            return dict(function='final_exponentiation', input=kv, actual=str(act)[:400], expected=str(exp)[:400], command=cmd)
    return None


def refute_fq2(binp):
    rnd = random.Random(9)
    vals = [(0, 0), (1, 0), (Q - 1, 0), (0, 1), (0, Q - 1), (2, 0), (0, 2), (Q - 2, 0), (5, 5), (rnd.randrange(Q), 0), (0, rnd.randrange(Q)), F2.rand(rnd), F2.rand(rnd)]
    sq = [F2.mul(v, v) for v in vals]
    for a in vals + sq:
        for b in (a, F2.neg(a), (a[0], (a[1] + 1) % Q), ((a[0] + 1) % Q, a[1]), vals[3]):
            kv = {'a__c0': hex(a[0]), 'a__c1': hex(a[1]), 'b__c0': hex(b[0]), 'b__c1': hex(b[1])}
            out, cmd = run_bin(binp, 'fq2_misc', kv)
            if 'error' in out:
                continue
            cmpv = 'Equal' if a == b else ('Greater' if F2.gt(a, b) else 'Less')
            n = (a[0] * a[0] + a[1] * a[1]) % Q
            leg = 'Zero' if n == 0 else ('QuadraticResidue' if pow(n, (Q - 1) // 2, Q) == 1 else 'QuadraticNonResidue')
            sg = (a[1] % 2) if a[0] == 0 else (a[0] % 2)
            exp_tag = f"{cmpv}|Some({cmpv})|{leg}|{sg}"
            if out.get('tag') != exp_tag:
                return dict(function='Fq2::{cmp,partial_cmp,legendre,sgn0}', input=kv, actual=out.get('tag'), expected=exp_tag, command=cmd)
            has = F2.sqrt(a) is not None
            o = out.get('out')
            if o == ['none']:
                if has:
                    return dict(function='Fq2::sqrt', input=kv, actual='None', expected='a root exists', command=cmd)
            else:
                r = (int(o[0], 16), int(o[1], 16))
                if F2.mul(r, r) != a:
                    return dict(function='Fq2::sqrt', input=kv, actual=str(r), expected='r*r == a' if has else 'None', command=cmd)
    return None


# ---- message expansion and field hashing (C13 / C06): RFC 9380 section 5.3 with hashlib ---------------------------------------
def ref_expand(variant, msg, dst, n):
    import hashlib
    if variant.startswith('xof'):
        H = hashlib.shake_128 if variant == 'xof128' else hashlib.shake_256
        return H(msg + n.to_bytes(2, 'big') + dst + bytes([len(dst)])).digest(n)
    H = dict(xmd256=hashlib.sha256, xmd512=hashlib.sha512, xmd384=hashlib.sha384, xmd224=hashlib.sha224)[variant]
    b, sblk = H().digest_size, H().block_size
    ell = (n + b - 1) // b
    if ell > 255:
        return 'panic'
    dp = dst + bytes([len(dst)])
    b0 = H(bytes(sblk) + msg + n.to_bytes(2, 'big') + b'\0' + dp).digest()
    bs = [H(b0 + b'\1' + dp).digest()]
    for i in range(2, ell + 1):
        bs.append(H(bytes(x ^ y for x, y in zip(b0, bs[-1])) + bytes([i]) + dp).digest())
    return b''.join(bs)[:n]


def refute_expand(binp):
    rnd = random.Random(19)
    msgs = [b'', b'abc', rnd.randbytes(200)]
    dsts = [b'', b'Q', b'QUUX-V01-CS02-with-expander', rnd.randbytes(254), rnd.randbytes(255), b'\xff' * 255]
    for variant, lens in (('xmd256', (0, 1, 31, 32, 33, 64, 128, 255 * 32 - 1, 255 * 32, 255 * 32 + 1, 9000)), ('xmd512', (1, 64, 65, 96, 255 * 64, 255 * 64 + 1)), ('xmd384', (1, 48, 49, 128)), ('xmd224', (1, 28, 57)),
                          ('xof128', (0, 1, 32, 168, 169, 500, 8160)), ('xof256', (1, 48, 136, 137, 300))):
        for n in lens:
            for mi, msg in enumerate(msgs):
                for di, dst in enumerate(dsts):
                    if (mi + di) % 2 and n > 200 and len(dst) < 254:      # thin out the long outputs, keep every tag length
                        continue
                    out, cmd = run_bin(binp, 'expand', dict(variant=variant, msg=msg.hex(), dst=dst.hex(), len=str(n)))
                    if 'error' in out:
                        continue
                    exp = ref_expand(variant, msg, dst, n)
                    exp = exp if exp == 'panic' else exp.hex()
                    if out.get('tag') != exp:
                        return dict(function=f"expand_message:{variant}", input=dict(msg=msg.hex(), dst=dst.hex(), len=n), actual=out.get('tag')[:200], expected=exp[:200], command=cmd[:600])
    # hash_to_field: consecutive blocks, big-endian, reduced; Fq2 real part first
    for field, L, mod, m in (('fq', 64, Q, 1), ('fr', 48, R, 1), ('fq2', 64, Q, 2)):
        for variant in ('xmd256', 'xof128'):
            for count in (0, 1, 2, 3, 5):
                for msg in msgs[:2]:
                    for dst in (dsts[2], dsts[4]):
                        out, cmd = run_bin(binp, 'hash_to_field', dict(field=field, variant=variant, msg=msg.hex(), dst=dst.hex(), count=str(count)))
                        if 'error' in out:
                            continue
                        okm = ref_expand(variant, msg, dst, count * m * L)
                        exp = [hex(int.from_bytes(okm[L * j:L * (j + 1)], 'big') % mod) for j in range(count * m)]
                        act = [hex(int(x, 16)) for x in out.get('out', [])]
                        if act != exp:
                            return dict(function=f"hash_to_field:{field}:{variant}", input=dict(msg=msg.hex(), dst=dst.hex(), count=count), actual=str(act)[:300], expected=str(exp)[:300], command=cmd[:600])
    return None


# ---- the hashing API (C06): composition of hash_to_field and the public maps, plus three RFC 9380 known answers ------------------------------
H2C_KAT = [   # (group, DST, which, uncompressed bytes for msg = "") - RFC 9380 J.9.1, J.9.2 (G1) and J.10.1 (G2; x only)
    ('g1', b'QUUX-V01-CS02-with-BLS12381G1_XMD:SHA-256_SSWU_RO_', 0,
     '052926add2207b76ca4fa57a8734416c8dc95e24501772c814278700eed6d1e4e8cf62d9c09db0fac349612b759e79a1'
     '08ba738453bfed09cb546dbb0783dbb3a5f1f566ed67bb6be0e8c67e2e81a4cc68ee29813bb7994998f3eae0c9c6a265'),
    ('g1', b'QUUX-V01-CS02-with-BLS12381G1_XMD:SHA-256_SSWU_NU_', 1,
     '184bb665c37ff561a89ec2122dd343f20e0f4cbcaec84e3c3052ea81d1834e192c426074b02ed3dca4e7676ce4ce48ba'
     '04407b8d35af4dacc809927071fc0405218f1401a6d15af775810e4e460064bcc9468beeba82fdc751be70476c888bf3'),
    ('g2', b'QUUX-V01-CS02-with-BLS12381G2_XMD:SHA-256_SSWU_RO_', 0,
     '05cb8437535e20ecffaef7752baddf98034139c38452458baeefab379ba13dff5bf5dd71b72418717047f5b0f37da03d'
     '0141ebfbdca40eb85b87142e130ab689c673cf60f1a3e98d69335266f30d9b8d4ac44c1038e9dcdd5393faf5c41fb78a'),
]


def refute_h2c(binp):
    rnd = random.Random(23)
    msgs = [b'', b'abc', rnd.randbytes(133)]
    dsts = [b'QUUX-V01-CS02-with-BLS12381G1_XMD:SHA-256_SSWU_RO_', b'', rnd.randbytes(255)]
    for g in ('g1', 'g2'):
        for variant in ('xmd256', 'xmd512', 'xof128'):
            for mi, msg in enumerate(msgs):
                for di, dst in enumerate(dsts):
                    if not THOROUGH[0] and (mi + di) % 2:
                        continue
                    out, cmd = run_bin(binp, 'h2c', dict(g=g, variant=variant, msg=msg.hex(), dst=dst.hex()))
                    if 'error' in out or len(out.get('out', [])) != 4:
                        continue
                    ro, nu, cro, cnu = out['out']
                    if ro != cro:
                        return dict(function=f"hash_to_curve:{g}:{variant}", input=dict(msg=msg.hex(), dst=dst.hex()), actual=ro[:300],
                                    expected='map2_to_curve(u[0], u[1]) for u = hash_to_field(msg, dst, 2): ' + cro[:300], command=cmd[:600])
                    if nu != cnu:
                        return dict(function=f"encode_to_curve:{g}:{variant}", input=dict(msg=msg.hex(), dst=dst.hex()), actual=nu[:300],
                                    expected='map_to_curve(u[0]) for u = hash_to_field(msg, dst, 1): ' + cnu[:300], command=cmd[:600])
    for g, dst, which, exp in H2C_KAT:
        out, cmd = run_bin(binp, 'h2c', dict(g=g, variant='xmd256', msg='', dst=dst.hex()))
        if 'error' in out or ':' not in out.get('tag', ''):
            continue
        act = out['tag'].split(':')[which][:len(exp)]
        if act != exp:
            return dict(function=('hash_to_curve', 'encode_to_curve')[which] + f":{g}:xmd256 (RFC 9380 known answer)", input=dict(msg='', dst=dst.hex()), actual=act, expected=exp, command=cmd[:600])
    return None


# ---- products of pairings (C11): the joint loop, the helpers and the product of the single pairings through the real code ------------------------
def refute_pairings(binp):
    rnd = random.Random(29)
    g1 = rand_point(F1, rnd); g2 = rand_point(F2, rnd)
    # into the subgroups: cofactor multiples of random curve points (checked: [r] of each is the identity)
    H1 = 0x396c8c005555e1568c00aaab0000aaab
    P = ec_mul(F1, H1, g1)
    # a G2 subgroup point: [k] of the crate's generator is not available here, so clear the cofactor with the curve order / r
    H2 = 0x5d543a95414e7f1091d50792876a202cd91de4547085abaa68a205b2e5a7ddfa628f1cb4d9e82ef21537e293a6691ae1616ec6e786f0c70cf1c38e31c7238e5
    Qg = ec_mul(F2, H2, g2)
    if P is None or Qg is None or ec_mul(F1, R, P) is not None or ec_mul(F2, R, Qg) is not None:
        raise RuntimeError('reference subgroup points could not be produced')
    a, b, c = rnd.randrange(1, R), rnd.randrange(1, R), rnd.randrange(1, R)
    P2, P3 = ec_mul(F1, a, P), ec_mul(F1, b, P)
    Q2, Q3 = ec_mul(F2, c, Qg), ec_mul(F2, a, Qg)
    one = [1] + [0] * 11
    shapes = [('empty', [], True), ('single', [(P, Qg)], False), ('identity_g1', [(None, Qg)], True), ('identity_g2', [(P, None)], True),
              ('two', [(P, Qg), (P2, Q2)], False), ('repeated_two', [(P, Qg), (P, Qg)], False), ('identity_first', [(None, Qg), (P2, Q2)], False), ('identity_middle', [(P, Qg), (P2, None), (P3, Q3)], False),
              ('identity_last', [(P, Qg), (P2, Q2), (None, None)], False), ('repeated', [(P, Qg), (P, Qg), (P, Qg)], False),
              ('cancel_neg', [(P, Qg), (ec_neg(F1, P), Qg)], True), ('cancel_neg_g2', [(P2, Q2), (P2, ec_neg(F2, Q2))], True),
              ('cancel_scalars', [(ec_mul(F1, a, P), ec_mul(F2, b, Qg)), (ec_mul(F1, (R - a * b) % R, P), Qg)], True),
              ('cancel_three', [(ec_mul(F1, a, P), Qg), (ec_mul(F1, b, P), Qg), (ec_mul(F1, (2 * R - a - b) % R, P), Qg)], True),
              ('five', [(P, Qg), (P2, Q2), (P3, Q3), (P2, Qg), (P, Q3)], False)]
    if not THOROUGH[0]:
        shapes = [sh for sh in shapes if sh[0] not in ('repeated', 'cancel_neg_g2', 'five', 'identity_last')]
    for name, pairs, is_one in shapes:
        kv = dict(n=str(len(pairs)))
        for i, (A, B) in enumerate(pairs):
            kv.update(pt_args(F1, f'p{i}', jac(F1, A, None))); kv.update(pt_args(F2, f'q{i}', jac(F2, B, None)))
        out, cmd = run_bin(binp, 'pairings', kv)
        o = out.get('out', [])
        if out.get('tag') == 'panic':
            return dict(function=f"pairings:{name}", input=kv, actual='panic', expected='a value (no product of pairings aborts)', command=cmd[:3000])
        if 'error' in out or len(o) != 7:
            continue
        joint, prod, multi, two, again, ml, mlprod = o
        val = [int(x, 16) for x in joint.split(',')]
        for what, x, y in (('final_exponentiation(miller_loop(list)) vs product of the single pairings', joint, prod), ('pairing_multi_product vs product of the single pairings', multi, prod),
                           ('pairing_product vs product of the single pairings', two or prod, prod), ('second evaluation with the same prepared elements', again, joint),
                           ('miller_loop(list) vs product of the single-pair miller_loop values', ml, mlprod)):
            if x != y:
                return dict(function=f"pairings:{name}", input=kv, actual=f"{what}: {x[:200]}", expected=y[:200], command=cmd[:3000])
        if is_one and val != one:
            return dict(function=f"pairings:{name}", input=kv, actual='product of pairings: ' + joint[:200], expected='1 (identities only / cancelling exponents)', command=cmd[:3000])
        if not is_one and val == one:
            return dict(function=f"pairings:{name}", input=kv, actual='product of pairings is 1', expected='a non-trivial value', command=cmd[:3000])
    return None


# ---- multi-scalar multiplication (C10) ----------------------------------------------------------------------------------------------
def refute_msm(binp):
    rnd = random.Random(23)
    for F, label in ((F1, 'msm_g1'), (F2, 'msm_g2')):
        P, Qp, S = rand_point(F, rnd), rand_point(F, rnd), rand_point(F, rnd)
        top = (1 << 255) - 1
        ks = [0, 1, 2, top, 1 << 254, (1 << 64) - 1, 1 << 64, (1 << 63) | (1 << 127) | (1 << 191), R - 1, R, rnd.randrange(1 << 255), rnd.randrange(1 << 255), 0x8000000000000001 << 60, (1 << 255) - (1 << 128)]
        shapes = [([], []), ([P], [ks[10]]), ([P], [0]), ([None], [ks[10]]), ([P, P], [ks[10], ks[11]]), ([P, ec_neg(F, P)], [ks[10], ks[10]]), ([P, ec_neg(F, P)], [5, 5]),
                  ([P, P, P], [1, 1, 1]), ([P, Qp, S], [ks[3], ks[4], ks[12]]), ([P, Qp, None, S], [ks[5], ks[6], ks[10], ks[7]]), ([P, Qp, S], [ks[10], ks[11]]), ([P, Qp], [ks[8], ks[9], ks[10]]),
                  ([P, Qp, S, P, Qp, S, ec_neg(F, S)], [ks[13], 3, ks[11], ks[1], ks[2], 7, 7]), ([P] * 9, [ks[i] for i in (1, 2, 3, 4, 5, 6, 7, 10, 11)])]
        # single-term and two-term inputs with scalars in [r, 2^255) (non-canonical representatives a caller may pass as raw limbs): a short-cut for few terms that goes
        # through Fr::from_repr is only observable here (seed C10-6)
        shapes += [([P], [R]), ([P], [top]), ([Qp], [R + 5]), ([None], [top]), ([P], [1]), ([P], [R - 1]), ([P, Qp], [R, top]), ([P, Qp], [top, 1 << 254]), ([P, None], [R + 1, 3])]
        ops = ['default', 'precomp'] + [str(w) for w in ((1, 2, 3, 4, 5, 7, 8, 11, 13, 16, 17, 20) if F is F1 else (1, 3, 8, 16, 17))]
        if THOROUGH[0]:
            ops = ['default', 'precomp'] + [str(w) for w in range(1, 21)]
        for si, (pts, sc) in enumerate(shapes):
            n = min(len(pts), len(sc))
            exp = None
            for i in range(n):
                exp = ec_add(F, exp, ec_mul(F, sc[i], pts[i]))
            for op in ops:
                if op.isdigit() and int(op) >= 17 and si not in (4, 8, 12):          # the large windows are slow: three shapes
                    continue
                kv = dict(op=op, np=str(len(pts)), nk=str(len(sc)))
                for i, A in enumerate(pts):
                    kv.update(pt_args(F, f'p{i}', jac(F, A, None)))
                for i, k in enumerate(sc):
                    kv[f'k{i}'] = hex(k)
                out, cmd = run_bin(binp, label, kv)
                if 'error' in out:
                    continue
                act = 'panic' if out.get('tag') == 'panic' else out_point(F, out)
                if act != exp:
                    return dict(function=f"{label}:sum_of_products:{op}", input=kv, actual=str(act), expected=str(exp), command=cmd[:2000])
    return None


def refute_scalar_paths(binp):
    """wNAF contexts with reuse histories, precomp_3 (C02 stand-in): the subset of the curve probes for functions that are not under contract"""
    rnd = random.Random(7)
    for F, label in ((F1, 'G1_op'), (F2, 'G2_op')):
        for op, kv, exp in curve_probes(F, label, rnd):
            if op not in ('precomp_3', 'wnaf_sb', 'wnaf_bs', 'wnaf_staged'):
                continue
            out, cmd = run_bin(binp, label, kv)
            if 'error' in out:
                continue
            act = out_point(F, out)
            if act != exp:
                return dict(function=f"{label}:{op}", input=kv, actual=str(act), expected=str(exp), command=cmd)
    return None


def refute_serdes(binp):
    """stream (de)serialization end to end (C19 cross-check): bytes written, bytes consumed with trailing data, truncation, non-reduced values"""
    rnd = random.Random(29)
    # scalars
    for k in (0, 1, R - 1, rnd.randrange(R), (1 << 200) + 7):
        out, cmd = run_bin(binp, 'ser', dict(kind='fr', k=hex(k), compressed='1'))
        exp = 'aabbcc' + k.to_bytes(32, 'big').hex()
        if 'error' not in out and out.get('tag') != exp:
            return dict(function='serialize:fr', input=hex(k), actual=out.get('tag'), expected=exp, command=cmd)
    for data, exp in [(k.to_bytes(32, 'big') + tail, ('Ok:32', hex(k))) for k in (0, 5, R - 1) for tail in (b'', b'\x01\x02\x03', bytes(9000))] + \
                     [(v.to_bytes(32, 'big'), 'Err') for v in (R, R + 1, (1 << 256) - 1)] + [((7).to_bytes(32, 'big')[:n], 'Err') for n in (0, 1, 31)]:
        out, cmd = run_bin(binp, 'deser', dict(kind='fr', compressed='1', bytes=data.hex()))
        if 'error' in out:
            continue
        act = (out.get('tag'), hex(int(out['out'][0], 16))) if out.get('tag', '').startswith('Ok') else 'Err'
        if act != exp:
            return dict(function='deserialize:fr', input=data.hex()[:200], actual=str(act), expected=str(exp), command=cmd[:600])
    # target group: twelve coefficients, c0.c0.c0 first
    names = [f'x__c{k}__c{i}__c{j}' for k in range(2) for i in range(3) for j in range(2)]
    for vals in ([0] * 12, list(range(1, 13)), [rnd.randrange(Q) for _ in range(12)], [Q - 1] * 12):
        kv = dict(kind='fq12', compressed='0'); kv.update({n: hex(v) for n, v in zip(names, vals)})
        out, cmd = run_bin(binp, 'ser', kv)
        blob = b''.join(v.to_bytes(48, 'big') for v in vals)
        if 'error' not in out and out.get('tag') != 'aabbcc' + blob.hex():
            return dict(function='serialize:fq12', input=str(vals)[:300], actual=out.get('tag', '')[:200], expected=('aabbcc' + blob.hex())[:200], command=cmd[:600])
        cases = [(blob + tail, ('Ok:576', [hex(v) for v in vals])) for tail in (b'', b'\xff' * 100, bytes(9000))] + [(blob[:n], 'Err') for n in (0, 47, 575)]
        for pos in (0, 5, 11):
            bad = bytearray(blob); bad[48 * pos:48 * pos + 48] = Q.to_bytes(48, 'big'); cases.append((bytes(bad), 'Err'))
        for data, exp in cases:
            out, cmd = run_bin(binp, 'deser', dict(kind='fq12', compressed='0', bytes=data.hex()))
            if 'error' in out:
                continue
            act = (out.get('tag'), [hex(int(x, 16)) for x in out['out']]) if out.get('tag', '').startswith('Ok') else 'Err'
            if act != exp:
                return dict(function='deserialize:fq12', input=data.hex()[:200], actual=str(act)[:300], expected=str(exp)[:300], command=cmd[:600])
    # points: bytes written == the point encoding; reading back with trailing data consumes exactly the encoding
    for F, g in ((F1, 'g1'), (F2, 'g2')):
        h = 0x396c8c005555e1568c00aaab0000aaab if F is F1 else 0x5d543a95414e7f1091d50792876a202cd91de4547085abaa68a205b2e5a7ddfa628f1cb4d9e82ef21537e293a6691ae1616ec6e786f0c70cf1c38e31c7238e5
        S = ec_mul(F, h, rand_point(F, rnd))
        for P in (S, ec_neg(F, S), None):
            for compressed in (True, False):
                blob = enc(F, P, compressed)
                for kind in (g, g + 'a'):
                    kv = dict(kind=kind, compressed='1' if compressed else '0'); kv.update(pt_args(F, 'p', jac(F, P, F.rand(rnd) if kind == g and P is not None else None)))
                    out, cmd = run_bin(binp, 'ser', kv)
                    if 'error' not in out and out.get('tag') != 'aabbcc' + blob.hex():
                        return dict(function=f'serialize:{kind}:compressed={compressed}', input=kv, actual=out.get('tag', '')[:200], expected=('aabbcc' + blob.hex())[:200], command=cmd[:800])
                    for tail in (b'', b'\x07' * 50, bytes(9000)):
                        out, cmd = run_bin(binp, 'deser', dict(kind=kind, compressed='1' if compressed else '0', bytes=(blob + tail).hex()))
                        if 'error' in out:
                            continue
                        act = (out.get('tag'), out_point(F, out)) if out.get('tag', '').startswith('Ok') else 'Err'
                        if act != ('Ok:%d' % len(blob), P):
                            return dict(function=f'deserialize:{kind}:compressed={compressed}', input=(blob + tail).hex()[:200], actual=str(act)[:300], expected=str(('Ok:%d' % len(blob), P))[:300], command=cmd[:600])
                    for n in (len(blob) - 1, len(blob) // 2, len(blob) // 2 + 1):
                        out, cmd = run_bin(binp, 'deser', dict(kind=kind, compressed='1' if compressed else '0', bytes=blob[:n].hex()))
                        if 'error' not in out and out.get('tag') != 'Err':
                            return dict(function=f'deserialize:{kind}:compressed={compressed}', input=blob[:n].hex()[:200], actual=str(out.get('tag')), expected='Err (truncated)', command=cmd[:600])
    return None


# ---- the tower (C09 / C12): structured elements through the real operations against the schoolbook reference of vx/replay.py ------------------
def refute_tower(binp):
    rnd = random.Random(31)
    dims = {'Fq2': 2, 'Fq6': 6, 'Fq12': 12}
    names = {'Fq2': ['c0', 'c1'], 'Fq6': [f'c{i}__c{j}' for i in range(3) for j in range(2)],
             'Fq12': [f'c{k}__c{i}__c{j}' for k in range(2) for i in range(3) for j in range(2)]}
    mulf = {'Fq2': rp.f2mul, 'Fq6': rp.f6mul, 'Fq12': rp.f12mul}

    def args(T, pref, v):
        return {f'{pref}__{n}': hex(x) for n, x in zip(names[T], v)}

    def call(T, op, **vals):
        kv = {}
        for k, v in vals.items():
            if isinstance(v, list):
                kv.update(args(T, k, v))
            else:
                kv[k] = str(v)
        out, cmd = run_bin(binp, f'{T}_{op}', kv)
        return out, cmd, kv
    for T, d in dims.items():
        one = [1] + [0] * (d - 1)
        elems = [[0] * d, one] + [[(c if i == j else 0) for i in range(d)] for j in range(d) for c in (1, Q - 1, 7)][:3 * d]
        elems += [[rnd.randrange(Q) if (i // 2) == blk else 0 for i in range(d)] for blk in range(d // 2)]      # one Fq2 block non-zero
        elems += [[rnd.randrange(Q) for _ in range(d)] for _ in range(2)]
        for x in elems:
            X = rp.unflat(x, T)
            # inverse: None exactly for zero, otherwise x * y == 1
            out, cmd, kv = call(T, 'inverse', self=x)
            if 'error' not in out:
                if out.get('tag') == 'none':
                    if any(x):
                        return dict(function=f'{T}::inverse', input=kv, actual='None', expected='Some(y) with x*y == 1', command=cmd)
                else:
                    y = [int(v, 16) for v in out['out']]
                    if not any(x) or rp.flat(mulf[T](X, rp.unflat(y, T))) != one:
                        return dict(function=f'{T}::inverse', input=kv, actual=str(y)[:300], expected='x*y == 1' if any(x) else 'None', command=cmd)
            # square == x * x ; product with a dense element
            out, cmd, kv = call(T, 'square', self=x)
            if 'error' not in out and [int(v, 16) for v in out['out']] != rp.flat(mulf[T](X, X)):
                return dict(function=f'{T}::square', input=kv, actual=str(out['out'])[:300], expected=str([hex(v) for v in rp.flat(mulf[T](X, X))])[:300], command=cmd)
            y = elems[-1]
            out, cmd, kv = call(T, 'mul_assign', self=x, other=y)
            if 'error' not in out and [int(v, 16) for v in out['out']] != rp.flat(mulf[T](X, rp.unflat(y, T))):
                return dict(function=f'{T}::mul_assign', input=kv, actual=str(out['out'])[:300], expected='schoolbook product', command=cmd)
        # Frobenius: k = 1 is x -> x^q (square-and-multiply with the reference product); every k equals k-fold application of k = 1; no panic for any k
        x = elems[-2]
        X = rp.unflat(x, T)
        acc, base, e = rp.unflat(one, T), X, Q
        while e:
            if e & 1:
                acc = mulf[T](acc, base)
            base = mulf[T](base, base); e >>= 1
        f1 = rp.flat(acc)
        cur = x
        chain = [x]
        for k in range(1, 14):
            out, cmd, kv = call(T, 'frobenius_map', self=chain[-1], k=1)
            if 'error' in out:
                break
            chain.append([int(v, 16) for v in out['out']])
        if len(chain) > 1 and chain[1] != f1:
            return dict(function=f'{T}::frobenius_map', input=dict(k=1, **args(T, 'self', x)), actual=str(chain[1])[:300], expected='x^q', command=cmd)
        period = 2 if T == 'Fq2' else (6 if T == 'Fq6' else 12)
        for k in (0, 2, 3, 5, 6, 7, 11, 12, 13, 23, 24, 25, 30, 1000, 18446744073709551615):
            out, cmd, kv = call(T, 'frobenius_map', self=x, k=k)
            if 'error' in out:
                continue
            exp = chain[k % period] if (k % period) < len(chain) else None
            act = 'panic' if out.get('tag') == 'panic' else [int(v, 16) for v in out['out']]
            if exp is not None and act != exp:
                return dict(function=f'{T}::frobenius_map', input=kv, actual=str(act)[:300], expected=f'{k % period}-fold application of x -> x^q', command=cmd)
    return None



# ---- prime fields through the public API with method-call syntax (C08 stand-in) -------------------------------------------------
def refute_prime_field(binp):
    """Fq / Fr and their representation types driven as the crate's callers write it (`a.pow(e)`, `r.is_zero()`): this is what observes
    an inherent method shadowing a contracted trait method, which a contract on the trait method cannot see"""
    RR = 0x73eda753299d7d483339d80809a1d80553bda402fffe5bfeffffffff00000001
    rnd = random.Random(11)
    for field, M, n in (('fq', Q, 6), ('fr', RR, 4)):
        W = 1 << (64 * n)
        Rm = W % M
        inv64 = [pow(pow(2, 64 * k, M), -1, M) for k in range(1, n + 1)]
        vals = [0, 1, 2, M - 1, M - 2, M, M + 1, W - 1, 1 << (64 * (n - 1)), (1 << (64 * (n - 1))) - 1, 1 << 64, (1 << 64) - 1, 1 << 63,
                Rm, (M - Rm) % M, inv64[0], inv64[-1], inv64[n - 2], (M + 1) // 2, rnd.randrange(M), rnd.randrange(M), rnd.randrange(W)]
        # elements whose MONTGOMERY form has a single non-zero limb (value = 2^(64 k) * R^-1): blind spots of limb-wise slips
        rinv = pow(W, -1, M)
        vals += [((1 << (64 * k)) * rinv) % M for k in range(n)] + [((5 << (64 * (n - 1))) * rinv) % M]
        exps = [[], [0], [1], [2], [0xffffffffffffffff], [0, 1], [3, 0, 0, 0], [M & 0xffffffffffffffff] + [(M >> (64 * k)) & 0xffffffffffffffff for k in range(1, n)],
                [0, 0, 0, 0, 1], [5, 0, 0, 0, 0, 0, 7], [0] * n + [1], [1] * 12, [0] * 11 + [1 << 63], [rnd.getrandbits(64) for _ in range(9)], [0, 0, 0, 0, 0, 0, 0]]
        for ia, a in enumerate(vals):
            for b in (vals[(ia * 7 + 3) % len(vals)], a, (a + 1) % W):
                e = exps[(ia + b) % len(exps)]
                kv = {'field': field, 'a': hex(a), 'b': hex(b), 'exp': ','.join(hex(x) for x in e)}
                out, cmd = run_bin(binp, 'prime_field_api', kv)
                if 'error' in out:
                    continue
                tag = out.get('tag', '').split('|')
                o = out.get('out', [])
                cmpv = lambda x, y: 'Equal' if x == y else ('Greater' if x > y else 'Less')
                exp_tag = [str(a == 0).lower(), str(a % 2 == 1).lower(), str(a.bit_length()), cmpv(a, b), str(a == b).lower(), str(a < b).lower()]
                F = 'Fq' if field == 'fq' else 'Fr'
                if tag[:6] != exp_tag:
                    return dict(function=f'{F}Repr::{{is_zero,is_odd,num_bits,cmp,eq,lt}}', input=kv, actual='|'.join(tag[:6]), expected='|'.join(exp_tag), command=cmd)
                exp_r = [a >> 1, a >> 67, (a << 1) % W, (a << 67) % W]
                got_r = [int(x, 16) for x in o[:4]]
                if got_r != exp_r:
                    return dict(function=f'{F}Repr::{{div2,shr,mul2,shl}}', input=kv, actual=str([hex(x) for x in got_r]), expected=str([hex(x) for x in exp_r]), command=cmd)
                if a < M and b < M:
                    ev = sum(x << (64 * i) for i, x in enumerate(e))
                    exp_f = [(a + b) % M, (a - b) % M, (a * b) % M, (a * a) % M, (-a) % M, (2 * a) % M, None if a == 0 else pow(a, -1, M), pow(a, ev, M), pow(a, ev, M)]
                    got_f = [None if x == 'none' else int(x, 16) for x in o[4:]]
                    exp_t = ['ok', str(a == 0).lower(), cmpv(a, b), str(a == b).lower()]
                    if tag[6:] != exp_t:
                        return dict(function=f'{F}::{{from_repr,is_zero,cmp,eq}}', input=kv, actual='|'.join(tag[6:]), expected='|'.join(exp_t), command=cmd)
                    if got_f != exp_f:
                        names = ['add_assign', 'sub_assign', 'mul_assign', 'square', 'negate', 'double', 'inverse', 'pow_ref_slice', 'pow_vec']
                        k = [i for i in range(len(exp_f)) if i >= len(got_f) or got_f[i] != exp_f[i]][0]
                        return dict(function=f'{F}::{names[k]}', input=kv, actual=str(got_f[k] if k < len(got_f) else None), expected=str(exp_f[k]), command=cmd)
                else:
                    exp_t = ['err', str(a < M).lower(), str(b < M).lower()]
                    if tag[6:] != exp_t:
                        return dict(function=f'{F}::from_repr', input=kv, actual='|'.join(tag[6:]), expected='|'.join(exp_t), command=cmd)
    return None


def refute_map(binp):
    """map2_to_curve(u0, u1) == map_to_curve(u0) + map_to_curve(u1) (cofactor clearing is additive) and every output in the subgroup, on zero / one / -1 / equal / random inputs
    (C14 stand-in: short-cuts for special inputs live outside the unit's subset)"""
    rnd = random.Random(31)
    for g in ('g1', 'g2'):
        if g == 'g1':
            vals = [0, 1, Q - 1, 2, rnd.randrange(Q), rnd.randrange(Q)]
            kvf = lambda n, v: {n: hex(v)}
        else:
            vals = [(0, 0), (1, 0), (0, 1), (Q - 1, 0), (0, Q - 1), F2.rand(rnd), F2.rand(rnd)]
            kvf = lambda n, v: {n + '__c0': hex(v[0]), n + '__c1': hex(v[1])}
        for i, a in enumerate(vals):
            for b in (a, vals[0], vals[(i + 1) % len(vals)], vals[-1]):
                kv = dict(g=g)
                kv.update(kvf('u0', a)); kv.update(kvf('u1', b))
                out, cmd = run_bin(binp, 'map', kv)
                if 'error' in out:
                    continue
                o = out.get('out', [])
                if out.get('tag') != 'true|true|true':
                    return dict(function=f'{g}:map_to_curve/map2_to_curve:in_subgroup', input=kv, actual=out.get('tag'), expected='true|true|true', command=cmd)
                if len(o) == 4 and o[2] != o[3]:
                    return dict(function=f'{g}:map2_to_curve', input=kv, actual=o[2], expected='map(u0) + map(u1) = ' + o[3], command=cmd)
    return None

# ---- stand-ins: functions that no contract reaches are driven on structured inputs against the independent reference on EVERY run.
# They are tests, not proofs: reported separately in the evidence (coverage.stand_ins), never counted as obligations.
STANDINS = {
    'batch_normalization': (refute_batch, "CurveProjective::batch_normalization (iterator adaptor chains: outside the Verus subset): every mix and order of identity / normalized / general representatives, up to 5 points"),
    'wnaf_contexts_precomp_3': (refute_scalar_paths, "(cross-check: under contract in units wnaf / precomp) Wnaf context methods with reuse histories and precomp_3 / mul_precomp_3: structured scalars (0, 1, word and chunk boundaries, r-1, r, 2^255-1), both staging orders, table sizes for 1 / 5 / 100000 scalars"),
    'expand_message_hash_to_field': (refute_expand, "(cross-check: under contract in units expand / okm; the abort beyond 255 blocks is only observable here) ExpandMsgXmd / ExpandMsgXof / hash_to_field through the real sha2 / sha3 crates (SHA-256, SHA-512, SHA-384, SHA-224, SHAKE128, SHAKE256) against hashlib: tag lengths 0, 1, 27, 254, 255; output lengths around every block boundary and the 255-block limit (abort expected beyond it); element counts 0..5"),
    'sum_of_products': (refute_msm, "(also under contract in unit msm; kept as an end-to-end cross-check through the compiled point formulas) sum_of_products / sum_of_products_pippinger (windows 1..20) / sum_of_products_precomp_256: empty input, duplicates, inverse pairs, identity points, zero scalars, mismatched lengths, scalars with bits at word boundaries and 2^255-1, single-term and two-term inputs with scalars in [r, 2^255)"),
    'serdes_streams': (refute_serdes, "(cross-check: the SerDes functions are under contract in units serdes / serout) serialize / deserialize for Fr, Fq12, G1, G2 and the affine types end to end: bytes written after existing sink content, bytes consumed with 0 / 50 / 9000 trailing bytes, truncation at several lengths, non-reduced blocks"),
    'tower_ops': (refute_tower, "(cross-check: the tower is under contract in unit tower) Fq2 / Fq6 / Fq12 inverse, square, mul_assign and frobenius_map on zero, one, every single-coefficient element, single-block elements and random elements; "
                  "frobenius_map(1) against x^q, every power (0..30, 1000, usize::MAX) against iterated application, no panic"),
    'fq2_sqrt_order': (refute_fq2, "Fq2::sqrt (Algorithm 9: only its constants and the zero case are under contract, A8'), legendre, cmp / partial_cmp, sgn0 on zero, +-1, +-u, 2, 2u, real, purely imaginary and random elements and their squares"),
    'hash_to_curve_api': (refute_h2c, "(cross-check: the glue is under contract in unit h2c) HashToCurve::hash_to_curve / encode_to_curve for G1 and G2 over XMD-SHA-256, XMD-SHA-512 and SHAKE128 against the composition "
                          "map2_to_curve(u[0], u[1]) with count = 2 / map_to_curve(u[0]) with count = 1 of the real hash_to_field and maps (each under contract elsewhere), empty / short / long messages and tags; "
                          "three RFC 9380 known answers (J.9.1, J.9.2, J.10.1 for the empty message)"),
    'pairing_products': (refute_pairings, "(cross-check: miller_loop is under contract in unit miller) final_exponentiation(miller_loop(list)), pairing_product, pairing_multi_product and a second evaluation with the same prepared elements "
                         "against the product (real Fq12 multiplication) of the single pairings; miller_loop(list) against the product of the single-pair loops; lists of 0..5 pairs with identities first / in the middle / last, repeated pairs, "
                         "and cancelling combinations (e(P,Q)e(-P,Q), e(aP,bQ)e(-abP,Q), three-term sums) that must give exactly 1"),
    'prime_field_api': (refute_prime_field, "(cross-check: the field and representation operations are under contract in units mont / kani:limbs) Fq, Fr, FqRepr, FrRepr through method-call syntax on the concrete types - "
                        "what a contract on the trait method cannot see is an inherent method of the same name taking over the call sites: is_zero / is_odd / num_bits / cmp / div2 / shr / mul2 / shl, from_repr, add / sub / mul / square / negate / double / inverse, "
                        "pow with exponents of 0..12 limbs; values 0, 1, M-1, M, M+1, 2^(64k), single-limb Montgomery forms, random"),
    'map_to_curve_api': (refute_map, "(cross-check: map_to_curve / map2_to_curve are under contract in unit h2c) map2_to_curve(u0, u1) against map_to_curve(u0) + map_to_curve(u1) with the real addition, all outputs in the subgroup: u in {0, 1, -1, u, -u, 2, random}, equal inputs, one input zero"),
    'decoders_api': (lambda binp: refute_codec(binp, {'C04'}), "(cross-check: the decoders are under contract in unit codec) into_affine / into_affine_unchecked of the four encodings against the reference decoder: valid points, flipped flag bits, non-reduced and over-long coordinates, off-curve and off-subgroup points, infinity encodings with stray payload bytes (single bytes, byte pairs that cancel under xor / sum)"),
    'encoders_api': (lambda binp: refute_encode(binp), "into_compressed / into_uncompressed through the public API on random points, both roots, small x, y in Fq / purely imaginary, the identity, with non-trivial Z"),
}


def run_standins(names, thorough=False):
    """[(name, description, evaluations, failure or None)] - failure is a dict like run()'s"""
    THOROUGH[0] = bool(thorough)
    binp, err = rp.build_replay()
    res = []
    for nme in names:
        fn, desc = STANDINS[nme]
        if not binp:
            res.append((nme, desc, 0, None, 'replay binary could not be built: ' + err[-300:]))
            continue
        e0 = EVALS[0]
        try:
            f = fn(binp)
            note = ''
        except Exception as ex:          # a stand-in never turns into an alarm by itself
            f, note = None, f'stand-in aborted: {type(ex).__name__}: {ex}'
        res.append((nme, desc, EVALS[0] - e0, f, note))
    return res


def run(prop):
    """a concrete failing input of the real code for this property, or None"""
    binp, err = rp.build_replay()
    if not binp:
        return None
    want = {prop}
    try:
        if prop in ('C01', 'C02', 'C10', 'C14', 'C07'):
            r = refute_curve(binp, want)
            if r: return r
        if prop == 'C01':
            r = refute_batch(binp)
            if r: return r
        if prop in ('C04', 'C05', 'C19', 'C07'):
            r = refute_codec(binp, want)
            if r: return r
        if prop == 'C13':
            return refute_okm(binp)
        if prop == 'C12':
            return refute_finalexp(binp)
        if prop == 'C18':
            return refute_fq2(binp)
    except Exception as e:          # the refuter must never turn into an alarm by itself
        return None
    return None
