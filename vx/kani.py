"""Engine KX: Kani / CBMC harnesses over the compiled crate (limb-level contracts, full input domain)."""
import os, re, shutil, subprocess, time
from . import driver
from .unit import VERIF


GROUPS = {'limbs': ('fq_repr', 'fr_repr', 'fq_field', 'fr_field', 'limb_helpers'), 'window': ('pippenger_window',)}


def run(timeout=3000, jobs=12, group=None):
    work = os.path.join(driver.OUT, 'kani')
    os.makedirs(os.path.join(work, 'src'), exist_ok=True)
    os.makedirs(os.path.join(work, '.cargo'), exist_ok=True)
    shutil.copy(os.path.join(VERIF, 'kani', 'src', 'lib.rs'), os.path.join(work, 'src', 'lib.rs'))
    open(os.path.join(work, 'Cargo.toml'), 'w').write(
        open(os.path.join(VERIF, 'kani', 'Cargo.toml')).read().replace('path = "/repo"', f'path = "{driver.REPO}"'))
    open(os.path.join(work, '.cargo', 'config.toml'), 'w').write('[net]\noffline = true\n')
    shutil.copy(os.path.join(driver.REPO, 'Cargo.lock'), os.path.join(work, 'Cargo.lock'))
    env = dict(os.environ, CARGO_NET_OFFLINE='true', CARGO_TARGET_DIR=os.path.join(driver.OUT, 'target-kani'))
    cmd = ['cargo', 'kani', '-j', str(jobs), '--output-format', 'terse']
    t0 = time.time()
    try:
        p = subprocess.run(cmd, cwd=work, env=env, capture_output=True, text=True, timeout=timeout)
        out = p.stdout + p.stderr
        to = False
    except subprocess.TimeoutExpired as e:
        out = (e.stdout.decode() if isinstance(e.stdout, bytes) else (e.stdout or '')) + (e.stderr.decode() if isinstance(e.stderr, bytes) else (e.stderr or ''))
        to = True
    wall = time.time() - t0
    harnesses = sorted(set(re.findall(r'Checking harness (\S+?)\.\.\.', out)))
    failed = re.findall(r'Verification failed for - (\S+)', out)
    all_h, all_failed = harnesses, failed
    if group:
        mods = GROUPS[group]
        harnesses = [h for h in harnesses if h.split('::')[1] in mods]
        failed = [h for h in failed if h.split('::')[1] in mods]
    m = re.search(r'Complete - (\d+) successfully verified harnesses, (\d+) failures, (\d+) total', out)
    status = 'undecided'
    if to:
        reason = 'kani timeout'
    elif not m:
        reason = 'kani produced no summary (compile error?): ' + out[-1500:]
    else:
        ok, bad, tot = int(m.group(1)), int(m.group(2)), int(m.group(3))
        reason = ''
        status = 'fail' if failed else ('pass' if ok + bad == tot and tot == len(all_h) and harnesses else 'undecided')
        if status == 'undecided':
            reason = f'harness count mismatch: {tot} run, {len(all_h)} listed, {len(harnesses)} in group'
    return dict(status=status, reason=reason, harnesses=harnesses, failed=failed, wall=wall, cmd=' '.join(cmd), output_tail=out[-3000:], work=work, env=env)


def counterexample(res, harness, timeout=900):
    """concrete values of a failing harness (Kani's concrete playback): the counterexample as a unit test of the real code"""
    cmd = ['cargo', 'kani', '--harness', harness, '-Z', 'concrete-playback', '--concrete-playback=print', '--output-format', 'terse']
    try:
        p = subprocess.run(cmd, cwd=res['work'], env=res['env'], capture_output=True, text=True, timeout=timeout)
        out = p.stdout + p.stderr
    except subprocess.TimeoutExpired:
        return None
    m = re.search(r'Concrete playback unit test for `[^`]*`:\s*```(.*?)```', out, re.S)
    failed_checks = re.findall(r'Failed Checks: (.*)', out)
    return dict(playback_test=m.group(1).strip() if m else None, failed_checks=failed_checks[:5])
