// symx base: a symbolic base field whose operations build expression DAGs.
// The *real* function bodies sliced from /repo are compiled against these types by rustc,
// so rustc (not a hand-written parser) gives the bodies their meaning.  Untrusted: the
// output is only used to generate proof text that Verus checks.
#![allow(dead_code, unused_variables, unused_mut, non_snake_case, non_camel_case_types, unused_imports, unused_parens)]
use std::cell::RefCell;
use std::collections::HashMap;

#[derive(Clone, Copy, PartialEq, Eq, Hash, Debug)]
pub struct Sym(pub u32);
pub type int = Sym;

#[derive(Clone, PartialEq, Eq, Hash, Debug)]
pub enum Node {
    Var(String),
    Const(String),
    Add(Sym, Sym),
    Sub(Sym, Sym),
    Mul(Sym, Sym),
    Neg(Sym),
    Dbl(Sym),
}

pub struct St {
    pub nodes: Vec<Node>,
    pub memo: HashMap<Node, Sym>,
    pub decisions: Vec<bool>,
    pub dpos: usize,
    pub conds: Vec<(String, Vec<(Sym, Sym)>, bool)>,
    pub hyps: Vec<(Sym, Sym)>,
    pub fresh: Vec<(String, String)>,
    pub fresh_ctr: usize,
    pub notes: Vec<String>,
}
thread_local! {
    pub static ST: RefCell<St> = RefCell::new(St { nodes: vec![], memo: HashMap::new(), decisions: vec![], dpos: 0,
        conds: vec![], hyps: vec![], fresh: vec![], fresh_ctr: 0, notes: vec![] });
}
pub fn mk(n: Node) -> Sym {
    ST.with(|s| {
        let mut s = s.borrow_mut();
        if let Some(x) = s.memo.get(&n) { return *x; }
        let id = Sym(s.nodes.len() as u32);
        s.nodes.push(n.clone());
        s.memo.insert(n, id);
        id
    })
}
pub fn var(name: &str) -> Sym { mk(Node::Var(name.to_string())) }
pub fn fconst(c: &str) -> Sym { mk(Node::Const(c.to_string())) }
pub fn fzero() -> Sym { fconst("0") }
pub fn fone() -> Sym { fconst("1") }
pub fn fadd(a: Sym, b: Sym) -> Sym { mk(Node::Add(a, b)) }
pub fn fsub(a: Sym, b: Sym) -> Sym { mk(Node::Sub(a, b)) }
pub fn fmul(a: Sym, b: Sym) -> Sym { mk(Node::Mul(a, b)) }
pub fn fneg(a: Sym) -> Sym { mk(Node::Neg(a)) }
pub fn fdbl(a: Sym) -> Sym { mk(Node::Dbl(a)) }

/// ask the path oracle; `what` describes the condition as a conjunction of equalities
pub fn decide(kind: &str, eqs: Vec<(Sym, Sym)>) -> bool {
    ST.with(|s| {
        let mut s = s.borrow_mut();
        // consistency: a condition already decided on this path keeps its answer (no new oracle query)
        for c in s.conds.iter() { if c.1 == eqs { return c.2; } }
        let d = if s.dpos < s.decisions.len() { s.decisions[s.dpos] } else { s.decisions.push(false); false };
        s.dpos += 1;
        s.conds.push((kind.to_string(), eqs, d));
        d
    })
}
pub fn fresh_var(prefix: &str, verus_expr: &str) -> Sym {
    let name = ST.with(|s| {
        let mut s = s.borrow_mut();
        s.fresh_ctr += 1;
        let n = format!("{}{}", prefix, s.fresh_ctr);
        s.fresh.push((n.clone(), verus_expr.to_string()));
        n
    });
    var(&name)
}
pub fn fresh_name(prefix: &str) -> String {
    ST.with(|s| {
        let mut s = s.borrow_mut();
        s.fresh_ctr += 1;
        let n = if s.fresh_ctr == 1 { prefix.to_string() } else { format!("{}{}", prefix, s.fresh_ctr) };
        s.fresh.push((n.clone(), String::new()));
        n
    })
}
pub fn add_hyp(a: Sym, b: Sym) { ST.with(|s| s.borrow_mut().hyps.push((a, b))); }
pub fn note(t: &str) { ST.with(|s| s.borrow_mut().notes.push(t.to_string())); }

pub fn render(x: Sym) -> String {
    // s-expression with sharing by node id:  printed as id references, nodes dumped separately
    format!("{}", x.0)
}
pub fn dump_nodes() -> String {
    ST.with(|s| {
        let s = s.borrow();
        let mut out = String::from("[");
        for (i, n) in s.nodes.iter().enumerate() {
            if i > 0 { out.push(','); }
            out.push_str(&match n {
                Node::Var(v) => format!("[\"v\",\"{}\"]", v),
                Node::Const(c) => format!("[\"c\",\"{}\"]", c),
                Node::Add(a, b) => format!("[\"add\",{},{}]", a.0, b.0),
                Node::Sub(a, b) => format!("[\"sub\",{},{}]", a.0, b.0),
                Node::Mul(a, b) => format!("[\"mul\",{},{}]", a.0, b.0),
                Node::Neg(a) => format!("[\"neg\",{}]", a.0),
                Node::Dbl(a) => format!("[\"dbl\",{}]", a.0),
            });
        }
        out.push(']');
        out
    })
}

/// run `f` once per feasible decision vector (DFS over the oracle), collecting one JSON record per path
pub fn explore<F: FnMut() -> String>(name: &str, mut f: F) -> String {
    let mut paths: Vec<String> = vec![];
    let mut decisions: Vec<bool> = vec![];
    loop {
        ST.with(|s| {
            let mut s = s.borrow_mut();
            s.decisions = decisions.clone(); s.dpos = 0; s.conds.clear(); s.hyps.clear(); s.fresh.clear(); s.fresh_ctr = 0; s.notes.clear();
        });
        let outs = f();
        let rec = ST.with(|s| {
            let s = s.borrow();
            let conds: Vec<String> = s.conds.iter().map(|(k, eqs, d)| format!("{{\"kind\":\"{}\",\"eqs\":[{}],\"taken\":{}}}", k,
                eqs.iter().map(|(a, b)| format!("[{},{}]", a.0, b.0)).collect::<Vec<_>>().join(","), d)).collect();
            let hyps: Vec<String> = s.hyps.iter().map(|(a, b)| format!("[{},{}]", a.0, b.0)).collect();
            let fresh: Vec<String> = s.fresh.iter().map(|(n, e)| format!("[\"{}\",\"{}\"]", n, e)).collect();
            let notes: Vec<String> = s.notes.iter().map(|n| format!("\"{}\"", n)).collect();
            format!("{{\"conds\":[{}],\"hyps\":[{}],\"fresh\":[{}],\"notes\":[{}],\"outs\":{}}}", conds.join(","), hyps.join(","), fresh.join(","), notes.join(","), outs)
        });
        paths.push(rec);
        decisions = ST.with(|s| s.borrow().decisions.clone());
        // next decision vector: flip the last false to true, drop the rest
        loop {
            match decisions.pop() {
                None => { return format!("{{\"fn\":\"{}\",\"paths\":[{}]}}", name, paths.join(",")); }
                Some(false) => { decisions.push(true); break; }
                Some(true) => {}
            }
        }
        if paths.len() > 256 { panic!("too many paths"); }
    }
}

// ---------------------------------------------------------------------------------------------
// symbolic Fq: the contract-level implementation of the base-field interface (C08's contracts)
#[derive(Clone, Copy, Debug)]
pub struct Fq { pub s: Sym }
impl Fq {
    pub fn v(&self) -> Sym { self.s }
    pub fn from_v(s: Sym) -> Fq { Fq { s } }
    pub fn fresh(name: &str) -> Fq { Fq { s: var(name) } }
    pub fn zero() -> Fq { Fq { s: fzero() } }
    pub fn one() -> Fq { Fq { s: fone() } }
    pub fn is_zero(&self) -> bool { decide("is_zero", vec![(self.s, fzero())]) }
    pub fn add_assign(&mut self, o: &Fq) { self.s = fadd(self.s, o.s); }
    pub fn sub_assign(&mut self, o: &Fq) { self.s = fsub(self.s, o.s); }
    pub fn mul_assign(&mut self, o: &Fq) { self.s = fmul(self.s, o.s); }
    pub fn square(&mut self) { self.s = fmul(self.s, self.s); }
    pub fn negate(&mut self) { self.s = fneg(self.s); }
    pub fn double(&mut self) { self.s = fdbl(self.s); }
    pub fn inverse(&self) -> Option<Fq> {
        if decide("is_zero", vec![(self.s, fzero())]) { None } else {
            let y = Fq::fresh(&fresh_name("inv"));
            add_hyp(fmul(self.s, y.s), fone());
            Some(y)
        }
    }
}
impl PartialEq for Fq { fn eq(&self, o: &Fq) -> bool { decide("eq", vec![(self.s, o.s)]) } }

pub trait Flat { fn flat(&self, out: &mut Vec<Sym>); }
impl Flat for Sym { fn flat(&self, out: &mut Vec<Sym>) { out.push(*self); } }
impl Flat for Fq { fn flat(&self, out: &mut Vec<Sym>) { out.push(self.s); } }
impl Flat for bool { fn flat(&self, out: &mut Vec<Sym>) { out.push(if *self { fone() } else { fzero() }); } }
pub fn flat_json<T: Flat>(x: &T) -> String {
    let mut v = vec![]; x.flat(&mut v);
    format!("[{}]", v.iter().map(|s| s.0.to_string()).collect::<Vec<_>>().join(","))
}
pub fn fin(_a: Sym) -> bool { true }
pub fn last_cond_lhs() -> Vec<Sym> { ST.with(|s| s.borrow().conds.last().map(|c| c.1.iter().map(|e| e.0).collect()).unwrap_or(vec![])) }
pub fn syms_json(v: &Vec<Sym>) -> String { format!("[{}]", v.iter().map(|s| s.0.to_string()).collect::<Vec<_>>().join(",")) }
pub fn flat_vec<T: Flat>(x: &T) -> Vec<Sym> { let mut v = vec![]; x.flat(&mut v); v }
pub fn has_note(t: &str) -> bool { ST.with(|s| s.borrow().notes.iter().any(|n| n == t)) }
pub fn cond_count() -> usize { ST.with(|s| s.borrow().conds.len()) }
pub fn cond_sides(i: usize) -> (Vec<Sym>, Vec<Sym>) {
    ST.with(|s| { let s = s.borrow(); let c = &s.conds[i]; (c.1.iter().map(|e| e.0).collect(), c.1.iter().map(|e| e.1).collect()) })
}
pub fn cond_taken(i: usize) -> bool { ST.with(|s| { let s = s.borrow(); i < s.conds.len() && s.conds[i].2 }) }
pub trait IsZeroSym { fn zero_eqs(&self) -> Vec<(Sym, Sym)>; }
impl IsZeroSym for Sym { fn zero_eqs(&self) -> Vec<(Sym, Sym)> { vec![(*self, fzero())] } }
pub fn sym_is_zero<T: IsZeroSym>(x: &T) -> bool { decide("is_zero", x.zero_eqs()) }
