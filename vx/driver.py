"""driver: expand /repo, build units, run Verus in parallel, classify, write evidence, report."""
import os, sys, json, time, hashlib, subprocess, re, fcntl, importlib, traceback
from concurrent.futures import ThreadPoolExecutor
from .rs import Source, AnchorLost
from .weave import Unsupported
from .unit import run_verus, VERIF

REPO = os.environ.get('VERIF_REPO', '/repo')
OUT = os.environ.get('VERIF_OUT', os.path.join(VERIF, 'out'))
GUARD = 'algorand_pairing_plus_verif'


def tree_hash():
    h = hashlib.sha256()
    files = []
    for root, dirs, fs in os.walk(os.path.join(REPO, 'src')):
        dirs.sort()
        for f in sorted(fs):
            files.append(os.path.join(root, f))
    files += [os.path.join(REPO, 'Cargo.toml'), os.path.join(REPO, 'Cargo.lock')]
    for f in files:
        if os.path.exists(f):
            h.update(f.encode())
            h.update(open(f, 'rb').read())
    return h.hexdigest()[:20]


def expand():
    """rustc's own macro expansion of the crate's current working tree (cached by content hash)"""
    os.makedirs(os.path.join(OUT, 'expand'), exist_ok=True)
    th = tree_hash()
    path = os.path.join(OUT, 'expand', th + '.rs')
    lock = open(os.path.join(OUT, 'expand', '.lock'), 'w')
    fcntl.flock(lock, fcntl.LOCK_EX)
    try:
        if not os.path.exists(path):
            env = dict(os.environ, CARGO_TARGET_DIR=os.path.join(OUT, 'target-expand'), CARGO_NET_OFFLINE='true')
            r = subprocess.run(['cargo', '+nightly', 'rustc', '--lib', '--offline', '--', '-Zunpretty=expanded', '--cfg', GUARD],
                               cwd=REPO, env=env, capture_output=True, text=True)
            if r.returncode != 0 or len(r.stdout) < 1000:
                raise Unsupported("macro expansion failed (crate does not compile?):\n" + r.stderr[-3000:])
            tmp = path + '.tmp%d' % os.getpid()
            open(tmp, 'w').write(r.stdout)
            os.rename(tmp, path)
            # keep the cache small
            olds = sorted((os.path.getmtime(os.path.join(OUT, 'expand', f)), f) for f in os.listdir(os.path.join(OUT, 'expand')) if f.endswith('.rs'))
            for _, f in olds[:-6]:
                os.remove(os.path.join(OUT, 'expand', f))
    finally:
        fcntl.flock(lock, fcntl.LOCK_UN)
    return Source(open(path).read(), 'expansion of /repo'), th


ERR_RE = re.compile(r'^error(?:\[[A-Z0-9]+\])?: (.*?)\n\s*--> ([^:\n]+):(\d+):(\d+)', re.M)


FN_RE = re.compile(r'\s*(?:pub(?:\([a-z]+\))?\s+)?(?:const\s+)?(?:unsafe\s+)?(?:proof\s+|exec\s+|spec\s+|open\s+spec\s+|broadcast\s+proof\s+)?fn\s+([A-Za-z0-9_]+)')


def fn_at_line(text_lines, line):
    """qualified name (Type::fn or fn) of the function containing `line` in a generated unit file
    (impl blocks are emitted at column 0 by the unit builders)"""
    cur_impl, cur_fn = None, None
    for i in range(min(line, len(text_lines))):
        l = text_lines[i]
        if l.startswith('impl'):
            m = re.match(r'impl(?:<[^>]*>)?\s+(?:.*?\bfor\s+)?([A-Za-z0-9_]+)', l)
            cur_impl = m.group(1) if m else None
        elif l.startswith('}'):
            cur_impl = None
        m = FN_RE.match(l)
        if m and not l.lstrip().startswith('//'):
            cur_fn = (cur_impl + '::' if cur_impl else '') + m.group(1)
    return cur_fn


def qual(function):
    """tower::Fq2::mul_assign -> Fq2::mul_assign ; tower::lemma_x -> lemma_x"""
    parts = function.split('::')[1:]
    parts = [p for p in parts if not p.startswith('impl&%')]
    if len(parts) >= 2 and parts[-2][:1].isupper():
        return '::'.join(parts[-2:])
    return parts[-1] if parts else function


def classify(res, text):
    """-> dict(status: pass|fail|undecided, verified, errors:[{fn,kind,line,msg}], reason)"""
    lines = text.split('\n')
    js = res['json']
    errs = []
    for m in ERR_RE.finditer(res['stderr']):
        msg, f, ln = m.group(1), m.group(2), int(m.group(3))
        errs.append(dict(msg=msg, line=ln, fn=fn_at_line(lines, ln), file=os.path.basename(f)))
    if res['timeout']:
        return dict(status='undecided', reason='verus timeout', verified=0, errors=errs, breakdown=[])
    if js is None or 'verification-results' not in js:
        return dict(status='undecided', reason='verus produced no result (crash or compile error): ' + res['stderr'][-1500:], verified=0, errors=errs, breakdown=[])
    vr = js['verification-results']
    bd = []
    try:
        for mt in js['times-ms']['smt']['smt-run-module-times']:
            bd += mt.get('function-breakdown', [])
    except Exception:
        pass
    # `assert(closed term) by(compute)` that evaluates to false is a refuted obligation (Verus reports it before the SMT phase, as a VIR error):
    # the function holding it fails - with the computed counter-fact in the message - rather than the unit being undecided
    refuted = [e for e in errs if re.search(r'simplifies to .* which evaluates to false', e['msg'])]
    if refuted:
        return dict(status='fail', verified=vr.get('verified', 0), errors=refuted, breakdown=bd, reason='by(compute) refuted a closed-term obligation')
    if vr.get('encountered-vir-error') or (vr.get('encountered-error') and vr.get('errors', 0) == 0 and not vr.get('success')):
        return dict(status='undecided', reason='verus rejected the unit text (unsupported construct or type error): ' +
                    '; '.join(e['msg'] for e in errs[:5]) + res['stderr'][-800:], verified=vr.get('verified', 0), errors=errs, breakdown=bd)
    if vr.get('success') and vr.get('errors', 0) == 0:
        return dict(status='pass', verified=vr['verified'], errors=[], breakdown=bd, reason='')
    hard = [e for e in errs if re.search(r'postcondition not satisfied|assertion failed|precondition not satisfied|invariant not satisfied|'
                                         r'possible arithmetic|index out of|possible division|unreachable|decreases|recommendation', e['msg'], re.I)
            or True]
    soft = [e for e in errs if re.search(r'rlimit|Resource limit|timed out|could not prove termination', e['msg'], re.I)]
    hard = [e for e in hard if e not in soft]
    if hard:
        return dict(status='fail', verified=vr.get('verified', 0), errors=hard + soft, breakdown=bd, reason='')
    return dict(status='undecided', reason='resource limit', verified=vr.get('verified', 0), errors=soft, breakdown=bd)


def build_and_verify(unit_name, src, th, timeout=900, seed=None):
    """returns dict with per-file results for one unit"""
    mod = importlib.import_module('units.' + unit_name)
    work = os.path.join(OUT, 'work', unit_name)
    os.makedirs(work, exist_ok=True)
    for f in os.listdir(work):
        if f.endswith('.rs') or f.startswith('symx_'):
            try:
                os.remove(os.path.join(work, f))
            except OSError:
                pass
    t0 = time.time()
    u = mod.build(src, work)
    files = [('main', u.verus_text(), None)] + u.lemma_files()
    canary_lines = []
    if getattr(u, 'canaries', None):
        ct, canary_lines = u.canary_text()
        if canary_lines:
            files.append(('canary', ct, None))
    build_s = time.time() - t0
    paths = []
    for suffix, text, names in files:
        p = os.path.join(work, f"{unit_name}_{suffix}.rs")
        open(p, 'w').write(text)
        paths.append((suffix, p, text, names))
    extra = []
    if seed is not None:
        extra = ['--smt-option', f'smt.random_seed={seed}']
    env_stack = os.environ.get('RUST_MIN_STACK')
    os.environ['RUST_MIN_STACK'] = '1073741824'

    def one(item):
        suffix, p, text, names = item
        r = run_verus(p, timeout=timeout, extra=extra, rlimit=(getattr(u, 'rlimit', 40) if suffix in ('main', 'canary') else 80))
        c = classify(r, text)
        if suffix == 'canary':
            lines = text.split('\n')
            want = {}
            for ln in canary_lines:
                for d in range(1, 8):          # the signature follows the marker line (attributes may come first)
                    if ln - 1 + d < len(lines) and FN_RE.match(lines[ln - 1 + d]):
                        want[fn_at_line(lines, ln + d)] = ln
                        break
            failed = {e['fn'] for e in c['errors']}
            c['canary'] = dict(expected=sorted(want), verified=sorted(n for n in want if n not in failed) if c['status'] in ('pass', 'fail') else None)
        c.update(file=p, suffix=suffix, wall=r['wall'], cmd=r['cmd'], stderr_tail=r['stderr'][-4000:], lemma_names=names)
        return c
    with ThreadPoolExecutor(max_workers=14) as ex:
        results = list(ex.map(one, paths))
    main_text = files[0][1]
    return dict(unit=u, results=results, build_s=build_s, trusted=u.scan_trusted(main_text), main_text=main_text)
