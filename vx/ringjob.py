"""Table-driven generation for field-tower style units: from function descriptors produce
 (1) the Verus contract woven onto the real function,
 (2) the contract-level (spec) implementation used by symx for callees,
 (3) the symx run that yields code/spec trees, and the ring lemmas + their calls."""
import os, re, json
from . import ring, weave
from .unit import run_symx, verus_to_rust_spec, VERIF

ARITH_LEMMAS = r'''
// ---- small modular-arithmetic helpers used by generated proofs (proved here) ----
proof fn lemma_mul_swap_last(a: int, x: int, y: int) ensures (a * x) * y == (a * y) * x
{ lemma_mul_is_associative(a, x, y); lemma_mul_is_associative(a, y, x); lemma_mul_is_commutative(x, y); }
proof fn lemma_term_mul(p: int, a: int, q: int, b: int, c: int) requires a * b == c ensures (p * a) * (q * b) == (p * q) * c
{
    lemma_mul_is_associative(p, a, q * b);       // p*(a*(q*b)) == (p*a)*(q*b)
    lemma_mul_is_associative(a, q, b);           // a*(q*b) == (a*q)*b
    lemma_mul_is_commutative(a, q);
    lemma_mul_is_associative(q, a, b);           // q*(a*b) == (q*a)*b
    lemma_mul_is_associative(p, q, a * b);       // p*(q*(a*b)) == (p*q)*(a*b)
}
proof fn lemma_small_mod_any(x: int, q: int) requires 0 <= x < q ensures x % q == x { lemma_small_mod(x as nat, q as nat); }
proof fn lemma_cong_zero_mul(c: int, l: int, r: int, q: int)
    requires q > 0, l % q == r % q ensures (c * (l - r)) % q == 0
{
    lemma_sub_mod_noop(l, r, q);
    lemma_small_mod(0, q as nat);
    assert((l - r) % q == 0);
    lemma_mul_mod_noop_right(c, l - r, q);
    assert(c * 0 == 0);
    lemma_small_mod(0, q as nat);
}
proof fn lemma_sum_zero_mod1(a: int, q: int) requires q > 0, a % q == 0 ensures a % q == 0 {}
proof fn lemma_sum_zero_mod2(a: int, b: int, q: int) requires q > 0, a % q == 0, b % q == 0 ensures (a + b) % q == 0
{ lemma_add_mod_noop(a, b, q); lemma_small_mod(0, q as nat); }
proof fn lemma_sum_zero_mod3(a: int, b: int, c: int, q: int) requires q > 0, a % q == 0, b % q == 0, c % q == 0 ensures (a + b + c) % q == 0
{ lemma_sum_zero_mod2(a, b, q); lemma_sum_zero_mod2(a + b, c, q); }
proof fn lemma_sum_zero_mod4(a: int, b: int, c: int, d: int, q: int) requires q > 0, a % q == 0, b % q == 0, c % q == 0, d % q == 0 ensures (a + b + c + d) % q == 0
{ lemma_sum_zero_mod3(a, b, c, q); lemma_sum_zero_mod2(a + b + c, d, q); }
proof fn lemma_cong_from_diff(a: int, b: int, q: int) requires q > 0, (a - b) % q == 0 ensures a % q == b % q
{
    lemma_sub_mod_noop(a, b, q);
    // (a%q - b%q) % q == 0 with both in [0,q) => equal
    lemma_mod_bound_any(a, q); lemma_mod_bound_any(b, q);
    let d = a % q - b % q;
    if d > 0 { lemma_small_mod(d as nat, q as nat); } else if d < 0 { lemma_small_mod((-d) as nat, q as nat); lemma_mod_neg_zero(d, q); }
}
proof fn lemma_mod_neg_zero(d: int, q: int) requires q > 0, -q < d < 0, d % q == 0 ensures false
{
    lemma_fundamental_div_mod(d, q);
    // d == q * (d / q), with -q < d < 0 impossible
    let k = d / q;
    assert(d == q * k);
    if k >= 0 { assert(q * k >= 0) by(nonlinear_arith) requires q > 0, k >= 0; }
    else { assert(q * k <= -q) by(nonlinear_arith) requires q > 0, k <= -1; }
}
proof fn lemma_mod_bound_any(a: int, q: int) requires q > 0 ensures 0 <= a % q < q { lemma_mod_bound(a, q); }
'''


def split_args(args):
    out, depth, cur = [], 0, ''
    for ch in args:
        if ch in '<([':
            depth += 1
        elif ch in '>)]':
            depth -= 1
        if ch == ',' and depth == 0:
            out.append(cur.strip()); cur = ''
        else:
            cur += ch
    if cur.strip():
        out.append(cur.strip())
    return out


class RingJobs:
    def __init__(self, unit, types, workdir):
        self.u = unit
        self.types = types
        self.workdir = workdir
        self.fns = []
        self.declared = []

    # ------------------------------------------------------------------ type plumbing
    def leaves(self, T, prefix):
        info = self.types[T]
        if info['fields'] is None:
            return [prefix]
        out = []
        for f, ft in info['fields']:
            out += self.leaves(ft, prefix + '__' + f)
        return out

    def declare_type(self, T):
        info = self.types[T]
        V = info['view']
        u = self.u
        flds = info['fields']
        u.add(f"impl {T} {{ pub open spec fn v(&self) -> {V} {{ {V} {{ " +
              ", ".join(f"{f}: self.{f}.v()" for f, _ in flds) + " } } }")
        # derived PartialEq (real text) with its contract
        eq_body = u.slice_fn(info['mod'], f'impl ::core::cmp::PartialEq for {T}', 'eq')[1]
        u.functions.append(f"{info['mod']}|impl ::core::cmp::PartialEq for {T}|eq")
        u.add(f"""impl vstd::std_specs::cmp::PartialEqSpecImpl for {T} {{
    open spec fn obeys_eq_spec() -> bool {{ true }}
    open spec fn eq_spec(&self, other: &{T}) -> bool {{ self.v() == other.v() }}
}}
impl PartialEq for {T} {{
    fn eq(&self, other: &{T}) -> (ret: bool) ensures ret == (self.v() == other.v())
    {eq_body}
}}""")
        # symx side
        sx = [f"#[derive(Clone, Copy, Debug)]\npub struct {T} {{ " + ", ".join(f"pub {f}: {ft}" for f, ft in flds) + " }"]
        sx.append(f"impl {T} {{")
        sx.append(f"  pub fn v(&self) -> {V} {{ {V} {{ " + ", ".join(f"{f}: self.{f}.v()" for f, _ in flds) + " } }")
        sx.append(f"  pub fn from_v(x: {V}) -> {T} {{ {T} {{ " + ", ".join(f"{f}: {ft}::from_v(x.{f})" for f, ft in flds) + " } }")
        sx.append(f"  pub fn set_v(&mut self, x: {V}) {{ *self = {T}::from_v(x); }}")
        sx.append(f"  pub fn fresh(p: &str) -> {T} {{ {T} {{ " + ", ".join(f"{f}: {ft}::fresh(&format!(\"{{}}__{f}\", p))" for f, ft in flds) + " } }")
        sx.append("}")
        sx.append(f"impl Flat for {V} {{ fn flat(&self, out: &mut Vec<Sym>) {{ " + " ".join(f"self.{f}.flat(out);" for f, _ in flds) + " } }")
        sx.append(f"impl Flat for {T} {{ fn flat(&self, out: &mut Vec<Sym>) {{ self.v().flat(out); }} }}")
        sx.append(f"impl PartialEq for {V} {{ fn eq(&self, o: &{V}) -> bool {{ let mut a = vec![]; let mut b = vec![]; self.flat(&mut a); o.flat(&mut b); decide(\"eq\", a.into_iter().zip(b.into_iter()).collect()) }} }}")
        sx.append(f"impl PartialEq for {T} {{ fn eq(&self, o: &{T}) -> bool {{ self.v() == o.v() }} }}")
        sx.append(f"impl IsZeroSym for {V} {{ fn zero_eqs(&self) -> Vec<(Sym, Sym)> {{ let mut a = vec![]; self.flat(&mut a); a.into_iter().map(|x| (x, fzero())).collect() }} }}")
        u.symx_parts.append("\n".join(sx))
        self.declared.append(T)

    # ------------------------------------------------------------------ functions
    def add_fn(self, f):
        self.fns.append(f)

    def contract(self, f):
        if f['raw']:
            return f['raw']
        if f['upd']:
            e = f['upd'].replace('SELF', 'old(self).v()')
            return f"    ensures final(self).v() == {e}"
        e = f['ret'].replace('SELF', 'self.v()')
        if f['rty'] == 'bool':
            return f"    ensures ret == {e}"
        return f"    ensures ret.v() == {e}"

    def symx_spec_impl(self, f):
        args = f['args']
        T = f['ty']
        if f['upd']:
            e = f['upd'].replace('SELF', 'self.v()')
            return f"  pub fn {f['name']}({args}) {{ let r = {e}; self.set_v(r); }}"
        if f['ret'] is None:
            return None
        e = f['ret'].replace('SELF', 'self.v()')
        rty = f['rty'].replace('Self', T)
        if rty == 'bool':
            return f"  pub fn {f['name']}({args}) -> bool {{ {e} }}"
        return f"  pub fn {f['name']}({args}) -> {rty} {{ {rty}::from_v({e}) }}"

    def symx_run(self, f, label):
        T = f['ty']
        decl, callargs = [], []
        selfmode = None
        for a in split_args(f['args']):
            if a in ('&mut self', '&self', 'self'):
                selfmode = a
                decl.append(f'let mut s = {T}::fresh("self"); let s0 = s;')
            else:
                nm, ty = [x.strip() for x in a.split(':', 1)]
                base = ty.lstrip('&').replace('mut ', '').strip().replace('Self', T)
                if base in ('usize', 'u64', 'bool'):
                    raise weave.Unsupported(f"{label}: non-field argument {a}")
                decl.append(f'let {nm} = {base}::fresh("{nm}");')
                callargs.append(('&' if ty.startswith('&') else '') + nm)
        call = f"real__{f['name']}({', '.join(callargs)})"
        run = f.get('run')
        recv = 's.' if selfmode else f'{T}::'
        if run:
            tagx = run.get('tag', '""')
            body = (f"let r = {recv}{call}; let tag: &str = {tagx}; let code = {run['code']}; let spec = {run['spec']};")
        elif f['upd']:
            spec = f['upd'].replace('SELF', 's0.v()')
            body = f"s.{call}; let tag = \"\"; let code = flat_json(&s.v()); let spec = flat_json(&({spec}));"
        else:
            spec = f['ret'].replace('SELF', 's0.v()')
            body = f"let r = {recv}{call}; let tag = \"\"; let code = flat_json(&r); let spec = flat_json(&({spec}));"
        return (f"fn run_{label}() -> String {{ explore(\"{label}\", || {{ {' '.join(decl)} {body} "
                f"format!(\"{{{{\\\"tag\\\":\\\"{{}}\\\",\\\"code\\\":{{}},\\\"spec\\\":{{}}}}}}\", tag, code, spec) }}) }}")

    def actual(self, var, f):
        parts = var.split('__')
        a = parts[0]
        fa = f.get('fresh_actuals') or {}
        if a in fa:
            base = fa[a]
        elif a == 'self':
            base = 'old(self)' if '&mut self' in f['args'] else 'self'
        else:
            base = a
        return '.'.join([base] + parts[1:])

    def subst_actuals(self, text, names, f):
        for v in sorted(names, key=len, reverse=True):
            text = re.sub(r'\b' + re.escape(v) + r'\b', '(' + self.actual(v, f) + '.v())', text)
        return text

    def finish(self):
        u = self.u
        # ---- symx program: spec-level impls + real bodies + runs
        by_ty = {}
        for f in self.fns:
            by_ty.setdefault(f['ty'], []).append(f)
        sx = []
        runs = []
        for T, fs in by_ty.items():
            sx.append(f"impl {T} {{")
            for f in fs:
                si = None if f.get('nosymx') else (f.get('symx_impl') or self.symx_spec_impl(f))
                if si:
                    sx.append(si)
            sx.append("}")
            sx.append(f"impl {T} {{")
            for f in fs:
                if not f['ring']:
                    continue
                sig, body = u.slice_fn(f['kw'].get('modkey', self.types[T]['mod']), f['impl'], f['name'])
                for a_, b_ in f['kw'].get('subst', ()):
                    sig = sig.replace(a_, b_)
                    body = body.replace(a_, b_)
                if f['kw'].get('sig_edit'):
                    sig = f['kw']['sig_edit'](sig)
                    body = re.sub(r'\bF::', T + '::', body)
                sig = re.sub(r'\bfn\s+' + f['name'] + r'\b', 'fn real__' + f['name'], sig, count=1)
                if not re.match(r'pub\b', sig):
                    sig = 'pub ' + sig
                sx.append(sig + ' ' + body)
                label = f"{T}_{f['name']}"
                runs.append((label, f))
                sx.append("")
            sx.append("}")
        for label, f in runs:
            sx.append(self.symx_run(f, label))
        sx.append("fn main() { let outs: Vec<String> = vec![" + ", ".join(f"run_{l}()" for l, _ in runs) +
                  "]; println!(\"{{\\\"jobs\\\":[{}],\\\"nodes\\\":{}}}\", outs.join(\",\"), dump_nodes()); }")
        base = open(os.path.join(VERIF, 'vx', 'symx_base.rs')).read()
        prog = base + "\n" + "\n".join(u.symx_parts) + "\n" + "\n".join(sx)
        res = run_symx(self.workdir, u.name, prog)
        dag = ring.Dag(res['nodes'])
        self.dag = dag
        jobs = {j['fn']: j for j in res['jobs']}
        # ---- lemmas and calls
        calls = {}      # label -> {tag: [call texts]}
        self.ring_info = {}
        for label, f in runs:
            j = jobs[label]
            bytag = {}
            info = dict(paths=len(j['paths']), lemmas=0, false_outputs=[])
            for pi, p in enumerate(j['paths']):
                code, spec = p['outs']['code'], p['outs']['spec']
                tag = p['outs'].get('tag', '')
                if len(code) != len(spec):
                    raise weave.Unsupported(f"{label}: output arity mismatch")
                hyps = [tuple(h) for h in p['hyps']]
                guard_eqs = []
                guard_terms = []   # (taken, [(l, r)...]) for every condition of the path
                for c in p['conds']:
                    eqs = [tuple(e) for e in c['eqs']]
                    if eqs:
                        guard_terms.append((c['taken'], eqs))
                    if c['taken']:
                        for l, r in eqs:
                            hyps.append((l, r))
                            guard_eqs.append((l, r))
                texts = []
                for oi, (c, s) in enumerate(zip(code, spec)):
                    if dag.spec_txt(c) == dag.spec_txt(s):
                        continue
                    lname = f"lem_{label}_p{pi}_o{oi}"
                    try:
                        (head, body), params = ring.emit_lemma(lname, dag, [(c, s)], hyps=hyps)
                    except ring.IdentityFalse as e:
                        # the code does not compute the spec on this path: no lemma; Verus will fail the postcondition.
                        w = ring.path_witness(dag, c, s, p)
                        exp_vals = None
                        if w is not None:
                            try:
                                full = dict(w)
                                for sp in spec:
                                    for vn in dag.poly(sp).vars():
                                        full.setdefault(vn, 0)
                                exp_vals = [hex(dag.poly(sp).eval(full, ring.Q)) for sp in spec]
                            except Exception:
                                exp_vals = None
                        info['false_outputs'].append(dict(path=pi, output=oi, tag=tag, expected=exp_vals,
                                                          conds=[dict(kind=cc['kind'], taken=cc['taken']) for cc in p['conds']],
                                                          witness={k: hex(v) for k, v in (w or {}).items()},
                                                          code=dag.spec_txt(c)[:1500], spec=dag.spec_txt(s)[:1500]))
                        continue
                    if f['kw'].get('transfer'):
                        u.lemmas.append(dict(name=lname, head=head, body=None, group=label, transfer=f['kw']['transfer']))
                    else:
                        u.lemmas.append(dict(name=lname, head=head, body=body, group=label))
                    info['lemmas'] += 1
                    acts = [self.actual(v, f) for v in params]
                    texts.append(" ".join(f"ax_fq_range({a});" for a in acts))
                    texts.append(f"{lname}({', '.join(a + '.v()' for a in acts)});")
                if texts:
                    if guard_terms:
                        names = set()
                        for tk, eqs in guard_terms:
                            for l, r in eqs:
                                names |= dag.leaves(l) | dag.leaves(r)
                        gl = []
                        for tk, eqs in guard_terms:
                            e = " && ".join(f"{self.subst_actuals(dag.spec_txt(l), names, f)} == {self.subst_actuals(dag.spec_txt(r), names, f)}" for l, r in eqs)
                            gl.append(f"({e})" if tk else f"!({e})")
                        texts = [f"    if {' && '.join(gl)} {{"] + texts + ["    }"]
                    bytag.setdefault(tag, []).extend(texts)
            calls[label] = bytag
            self.ring_info[label] = info
        u.ring_info = self.ring_info
        # ---- Verus text: real functions with contracts
        for T, fs in by_ty.items():
          for wrapped in (False, True):
            if not wrapped:
                u.add(f"impl {T} {{")
            for f in fs:
                if bool(f['kw'].get('wrap')) != wrapped:
                    continue
                label = f"{T}_{f['name']}"
                kw = dict(f['kw'])
                wrap = kw.pop('wrap', None)
                modkey = kw.pop('modkey', self.types[T]['mod'])
                if f['ring'] and calls.get(label):
                    place = f.get('place') or {}
                    ghost = list(kw.pop('ghost', ()))
                    default_texts = []
                    for tag, texts in calls[label].items():
                        if tag in place:
                            anchor, where = place[tag][0], place[tag][1]
                            occ = place[tag][2] if len(place[tag]) > 2 else 0
                            ghost.append((anchor, "proof { " + "\n".join(texts) + " }", where, occ))
                        else:
                            default_texts += texts
                    pg = kw.pop('post_ghost', None)
                    if default_texts or pg:
                        blk = "proof { " + "\n".join(default_texts) + " }" + (" " + pg if pg else "")
                        kw['tail'] = blk
                        kw['before_returns'] = blk
                    kw['ghost'] = ghost
                kw.pop('post_ghost', None)
                kw.pop('transfer', None)
                if wrap:
                    u.add(wrap[0])
                    u.add(u.real_fn(modkey, f['impl'], f['name'], self.contract(f), **kw))
                    u.add(wrap[1])
                else:
                    u.add(u.real_fn(modkey, f['impl'], f['name'], self.contract(f), vis='pub', **kw))
            if not wrapped:
                u.add("}")
