#!/bin/bash
# confirm_seed.sh <seed dir> : in a scratch worktree check that (a) the demo fails with the patch and passes without,
# (b) it compiles, (c) the baseline suite (release, three slow tests skipped) passes with the patch.  Writes <seed dir>/confirm.log
SD=$1
WT=/tmp/wt-confirm
export CARGO_TARGET_DIR=/tmp/wt-confirm-target CARGO_NET_OFFLINE=true
LOG=$SD/confirm.log
: > $LOG
git -C /repo worktree remove --force $WT 2>/dev/null
git -C /repo worktree add -q --detach $WT HEAD || exit 3
cd $WT
install_demo() {
  if [ -f $SD/demo.diff ]; then git apply $SD/demo.diff || return 1;
  else mkdir -p tests && cp $SD/demo.rs tests/seed_demo.rs; fi
}
run_demo() {
  if [ -f $SD/demo.diff ]; then
    # in-crate demo: find the test module name(s) added
    names=$(grep -hoE "mod [a-z0-9_]*demo[a-z0-9_]*" $SD/demo.diff | awk '{print $2}' | sort -u | head -1)
    cargo test --release --offline --lib ${names:-demo} 2>&1 | tail -15
  else
    cargo test --release --offline --test seed_demo 2>&1 | tail -15
  fi
}
echo "== clean tree: demo must pass" >> $LOG
install_demo >> $LOG 2>&1; run_demo >> $LOG 2>&1
grep -q "test result: ok" $LOG && CLEAN_OK=1 || CLEAN_OK=0
git checkout -q -- . ; git clean -fdq -e target
echo "== patched tree: demo must fail" >> $LOG
git apply $SD/patch.diff >> $LOG 2>&1 || { echo "PATCH DOES NOT APPLY" >> $LOG; }
install_demo >> $LOG 2>&1; run_demo > $LOG.p 2>&1; cat $LOG.p >> $LOG
grep -q "test result: FAILED\|panicked\|error\[" $LOG.p && PATCH_FAIL=1 || PATCH_FAIL=0
grep -q "error\[" $LOG.p && COMPILES=0 || COMPILES=1
rm -f $LOG.p
git checkout -q -- . ; git clean -fdq -e target
git apply $SD/patch.diff
echo "== patched tree: baseline suite" >> $LOG
cargo test --release --offline --lib -- --skip bls12_engine_tests --skip g2_curve_tests --skip fq12_field_tests 2>&1 | tail -5 > $LOG.s; cat $LOG.s >> $LOG
grep -q "test result: ok. 129 passed" $LOG.s && SUITE=1 || SUITE=0
rm -f $LOG.s
cd /; git -C /repo worktree remove --force $WT
echo "RESULT clean_demo_pass=$CLEAN_OK patched_demo_fail=$PATCH_FAIL compiles=$COMPILES suite_129_pass=$SUITE" | tee -a $LOG
