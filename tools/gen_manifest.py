#!/usr/bin/env python3
"""write MANIFEST.json from props.py (claimed checks) and the not_applicable table below"""
import json, sys, os
sys.path.insert(0, '/verif')
import props
ids = [json.loads(l)['id'] for l in open('/verif/properties.jsonl')]
NA = props.NOT_APPLICABLE
checks = []
for pid in ids:
    if pid not in props.PROPS:
        continue
    P = props.PROPS[pid]
    checks.append(dict(
        property_id=pid,
        quick_cmd=f"./check.py {pid} --tier quick",
        thorough_cmd=f"./check.py {pid} --tier thorough",
        evidence_file=f"/verif/evidence/{pid}.json",
        replay_cmd_template="cat {path}",
        engine="KX" if any(x.startswith("kani:") for x in P["units_quick"]) else ("SX" if any(x.startswith("symx:") for x in P["units_quick"]) else "VX"),
        level_claimed=dict(category=P.get("category", "proof"), text=P['claim'], design_ref=P.get('design_ref', 'DESIGN.md section 3')),
        level_note="; ".join(P.get('assumptions', [])) + ("; NOT covered: " + "; ".join(P['not_covered']) if P.get('not_covered') else '')
                   + ("; STAND-INS (labelled tests, never counted as proved; run on every check against an independent reference): " + ", ".join(P['standins']) if P.get('standins') else ''),
        technique=P.get('technique', "contract-based deductive verification: Verus contracts woven onto the real functions sliced from rustc's expansion of /repo; generated ring/tracking proofs checked by Verus")
                  + (" | functions outside the verifier's reach: labelled stand-in tests of the compiled crate on structured inputs (vx/refute.py), reported separately" if P.get('standins') else ''),
    ))
m = dict(
    version=1,
    setup_cmd="sh tools/setup.sh",
    hooks=dict(guard="algorand_pairing_plus_verif", enable="--cfg algorand_pairing_plus_verif (passed to rustc by vx/driver.py when expanding the crate)",
               baseline_off_cmd="cd /repo && cargo test --workspace --no-fail-fast --offline", source_commits=props.HOOK_COMMITS, add_only=True),
    engines=[dict(name="SX", path="/verif/vx/symiso.py", serves_properties=[c['property_id'] for c in checks if c['engine'] == 'SX'],
                  kind_free_text="symbolic execution of real bodies compiled against a symbolic ring + polynomial normal form (C16 only; labelled, not a deductive proof)"),
             dict(name="KX", path="/verif/kani", serves_properties=[c['property_id'] for c in checks if c['engine'] == 'KX'],
                  kind_free_text="Kani/CBMC harnesses over the compiled crate for limb-level contracts (full input domain, unwinding assertions on)"),
             dict(name="VX", path="/verif/vx", serves_properties=[c['property_id'] for c in checks],
                  kind_free_text="Verus on real functions mechanically sliced from rustc -Zunpretty=expanded of /repo's working tree; proof generators (ring tactic, scalar/exponent tracking) are untrusted, Verus checks their output")],
    checks=checks,
    notes="fix: commit f2f7600 in /repo repairs map2_to_curve (C14/C07), see known_findings.json and DESIGN.md section 5",
    not_applicable=[dict(property_id=i, reason=NA.get(i, "contracts not completed")) for i in ids if i not in props.PROPS],
)
json.dump(m, open('/verif/MANIFEST.json', 'w'), indent=1)
print("claimed:", [c['property_id'] for c in checks])
