#!/bin/sh
# offline setup: warm the macro-expansion cache and build the replay binary (both are rebuilt on demand by the checks)
cd /verif || exit 1
export CARGO_NET_OFFLINE=true
python3 -c "import sys; sys.path.insert(0,'/verif'); from vx import driver; driver.expand(); print('expansion ok')" || exit 1
python3 -c "import sys; sys.path.insert(0,'/verif'); from vx import replay; print(replay.build_replay())" || true
verus --version >/dev/null 2>&1 || { echo "verus missing"; exit 1; }
exit 0
