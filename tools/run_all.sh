#!/bin/sh
# run every claimed check (quick tier) on the current tree; summary on stdout
cd /verif
for id in $(python3 -c "import props; print(' '.join(sorted(props.PROPS)))"); do
  ./check.py $id --tier ${1:-quick} | tail -1
done
