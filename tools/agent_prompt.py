#!/usr/bin/env python3
"""print the prompt given to a mutation sub-agent for one property (property text + worktree only)"""
import json, sys
pid, wt = sys.argv[1], sys.argv[2]
n = sys.argv[3] if len(sys.argv) > 3 else "2"
p = [json.loads(l) for l in open('/verif/properties.jsonl') if json.loads(l)['id'] == pid][0]
print(f"""You are helping test a verification effort for the Rust crate algorand/pairing-plus (BLS12-381 pairing library).
You have your own scratch git worktree of the crate at {wt} (work ONLY there; do not read or touch /repo or /verif; do not commit).
Offline sandbox: use `cargo ... --offline`, and set CARGO_TARGET_DIR={wt}/target for every cargo command.

Here is a semantic property the crate is supposed to satisfy:

  id: {p['id']}
  title: {p['title']}
  statement: {p['statement']}
  quantifier: {p['quantifier']['text']}
  relevant files: {', '.join(p['anchors']['files'])}

Task: produce {n} DIFFERENT, independent, realistic changes (bugs) to the crate's non-test source code, each of which
 (a) breaks this property for some inputs,
 (b) still compiles, and
 (c) still passes the existing test suite of the crate (the pinned baseline is the 129 tests that pass on the unchanged tree;
     the tests bls12_engine_tests, g2_curve_tests, fq12_field_tests are too slow and not part of it - skip them with
     `cargo test --release --offline --lib -- --skip bls12_engine_tests --skip g2_curve_tests --skip fq12_field_tests`
     (release mode is fine and much faster; debug mode takes ~5 min on 8 threads)).
Prefer changes that need something specific to manifest (an unusual input class, a special value, a rarely taken branch, a boundary,
a multi-step sequence, or two cooperating sites that each look fine alone) rather than ones ordinary use would expose at once.
Do not edit or delete existing tests. Keep each change small (a few lines), like a plausible maintenance slip or "optimisation".

For each change k = 1..{n} write into {wt}/out/k/ :
  patch.diff  - `git diff` of the change against the worktree HEAD (only src/ files; must apply with `git apply` on a clean checkout)
  demo.rs     - a demonstration: a self-contained Rust test module or small program using the crate's public API (or, if needed, a
                #[cfg(test)] mod appended to a source file - then give it as demo.diff) that FAILS with the change and PASSES without it;
                say in NOTES.md exactly how to run it
  NOTES.md    - what the change is, which inputs expose it, why the existing tests still pass, and the exact commands you ran with their results.
Verify all of (a),(b),(c) yourself by actually running the commands: the demo on the changed tree (fails) and on the clean tree (passes),
and the test suite on the changed tree (passes). Revert the worktree to clean (git checkout -- . ) between changes and at the end.
Finally reply with a short summary listing for each change: one-line description, files touched, and whether each of (a),(b),(c) was confirmed.""")
