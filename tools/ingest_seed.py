#!/usr/bin/env python3
"""ingest_seed.py <new seed id> <dir with patch.diff/demo.rs|demo.diff/NOTES.md/confirm.log> [check ids run by hand ...]
copies a confirmed seeded change into /verif/seeded/<id>/ and writes its meta.json (caught_by is filled by tools/seed_matrix.py)"""
import os, sys, json, shutil
sid, sd = sys.argv[1], sys.argv[2]
d = f'/verif/seeded/{sid}'
os.makedirs(d, exist_ok=True)
for f in ('patch.diff', 'demo.rs', 'demo.diff', 'NOTES.md'):
    if os.path.exists(os.path.join(sd, f)):
        shutil.copy(os.path.join(sd, f), os.path.join(d, f))
res = [l for l in open(os.path.join(sd, 'confirm.log')).read().split('\n') if l.startswith('RESULT')][-1]
if res != 'RESULT clean_demo_pass=1 patched_demo_fail=1 compiles=1 suite_129_pass=1':
    print('NOT CONFIRMED', sid, res); shutil.rmtree(d); sys.exit(1)
notes = open(os.path.join(sd, 'NOTES.md')).read() if os.path.exists(os.path.join(sd, 'NOTES.md')) else ''
meta = dict(id=sid, written_for_property=sid.split('-')[0], source="independent sub-agent (second round) given only the property text and a scratch worktree",
            needs_to_manifest=notes[:2500],
            confirmed_by="tools/confirm_seed.sh in a scratch worktree (/tmp/wt-confirm): demo passes on the clean tree, fails with the patch; patched tree compiles; baseline suite (129 tests, release, three slow tests skipped) passes with the patch",
            confirmation=res, caught_by=[], undecided_checks=[])
json.dump(meta, open(os.path.join(d, 'meta.json'), 'w'), indent=1)
print('ingested', sid)
