#!/usr/bin/env python3
"""print the markdown table of section 10 of DESIGN.md from seeded/*/meta.json (written by tools/seed_matrix.py)"""
import os, json, re
S = '/verif/seeded'
rows = []
for sid in sorted(os.listdir(S)):
    mp = os.path.join(S, sid, 'meta.json')
    if not os.path.exists(mp):
        continue
    m = json.load(open(mp))
    notes = m.get('needs_to_manifest', '')
    title = ''
    for l in notes.split('\n'):
        l = l.strip().lstrip('#').strip()
        if l:
            title = l
            break
    title = re.sub(r'^(C\d\d\s*[/-]?\s*)?(change|Change)\s*\d+\s*[:\-–—]*\s*', '', title)
    title = re.sub(r'^C\d\d\s+change\s+\d+\s*-\s*', '', title)[:150]
    how = []
    for c in m.get('caught_by', []):
        objs = []
        for l in c.get('lines', []):
            mm = re.search(r'replay=\S*/(C\d\d-[^ ]+)\.json(\s+no-failing-input-found)?', l)
            if mm:
                o = mm.group(1).split('-', 1)[1]
                objs.append(o[:60] + (' (no input)' if mm.group(2) else ''))
        how.append(f"**{c['check']}**: " + '; '.join(objs[:3]))
    if not how and m.get('checks_run_by_hand'):
        how = ['by hand: ' + '; '.join(m['checks_run_by_hand'])]
    und = m.get('undecided_checks', [])
    rows.append(f"| {sid} | {title} | {'<br>'.join(how) if how else '**not caught**'} | {', '.join(und) if und else ''} |")
print("| seed | change | caught by (check: unit-obligation; `no input` = reported with no-failing-input-found) | undecided |")
print("|---|---|---|---|")
print('\n'.join(rows))
