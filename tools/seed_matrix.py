#!/usr/bin/env python3
"""apply every seeded change to /repo in turn, run the quick checks of the claimed properties that could be affected,
record which checks report it (meta.json: caught_by), and restore /repo.  Usage: seed_matrix.py [seed ids...]"""
import os, sys, json, subprocess
sys.path.insert(0, os.environ.get('VERIF_ROOT', '/verif'))
import props
S = '/verif/seeded'
REPO = os.environ.get('VERIF_REPO', '/repo')
ROOT = os.environ.get('VERIF_ROOT', '/verif')     # where check.py is run from (a snapshot of /verif while /verif is being edited)
ids = sys.argv[1:] or sorted(os.listdir(S))
assert subprocess.run(['git', '-C', REPO, 'status', '--porcelain'], capture_output=True, text=True).stdout.strip() == '', "/repo not clean"
for sid in ids:
    d = os.path.join(S, sid)
    meta = json.load(open(os.path.join(d, 'meta.json')))
    r = subprocess.run(['git', '-C', REPO, 'apply', os.path.join(d, 'patch.diff')], capture_output=True, text=True)
    if r.returncode:
        print(sid, 'patch does not apply', r.stderr[:200]); continue
    try:
        caught, undec = [], []
        only = os.environ.get('MATRIX_PROPS', '').split()
        meta['checks_run'] = only or sorted(props.PROPS)
        for pid in (only or sorted(props.PROPS)):
            o = subprocess.run(['./check.py', pid, '--tier', 'quick'], cwd=ROOT, capture_output=True, text=True)
            vl = [l for l in o.stdout.split('\n') if l.startswith('VIOLATION')]
            if o.returncode == 1 and vl:
                caught.append(dict(check=pid, lines=vl))
            elif o.returncode != 0:
                undec.append(pid)
                if o.returncode != 2:
                    print(sid, pid, 'exit', o.returncode, 'without VIOLATION line:', (o.stderr or o.stdout)[-400:], flush=True)
        meta['caught_by'] = caught
        meta['undecided_checks'] = undec
        json.dump(meta, open(os.path.join(d, 'meta.json'), 'w'), indent=1)
        print(sid, 'caught by', [c['check'] for c in caught], 'undecided', undec, flush=True)
    finally:
        subprocess.run(['git', '-C', REPO, 'checkout', '--', '.'])
