#!/bin/bash
# matrix_parallel.sh [N [seed ids...]]: run the seed x check matrix with N workers, each on its own scratch worktree of /repo and its own
# output directory, from a snapshot of /verif (so that /verif can be edited meanwhile).  Results go to /verif/seeded/*/meta.json.
N=${1:-3}
SNAP=/root/scratch/snap
rm -rf $SNAP; mkdir -p $SNAP
rsync -a --exclude out --exclude .git /verif/ $SNAP/
if [ $# -gt 1 ]; then shift; ids=("$@"); else ids=($(ls /verif/seeded | sort)); fi
for i in $(seq 0 $((N-1))); do
  mine=()
  for j in "${!ids[@]}"; do [ $((j % N)) -eq $i ] && mine+=("${ids[$j]}"); done
  WT=/tmp/wt-mx-$i; OUT=/tmp/verif-mx-out-$i
  git -C /repo worktree remove --force $WT 2>/dev/null
  git -C /repo worktree add -q --detach $WT HEAD
  mkdir -p $OUT/evidence
  ( VERIF_ROOT=$SNAP VERIF_REPO=$WT VERIF_OUT=$OUT VERIF_EVIDENCE=$OUT/evidence python3 $SNAP/tools/seed_matrix.py "${mine[@]}" > /root/scratch/matrix-$i.log 2>&1
    git -C /repo worktree remove --force $WT; rm -rf $OUT ) &
done
wait
