"""Unit `h2c`: map_to_curve / map2_to_curve (C14) and hash_to_curve / encode_to_curve (C06 composition), generic code
verified once against the trait contracts of the layers below."""
import re
from vx.unit import Unit, spec_text
from vx import weave

PANIC_RE = re.compile(r'::core::panicking::panic\((?:"(?:[^"\\]|\\.)*")\)')


def no_panic(body, counts):
    """R9: a call of core::panicking::panic becomes the obligation `unreachable` (vstd unreached: requires false)"""
    n = len(PANIC_RE.findall(body))
    counts['R9'] = counts.get('R9', 0) + n
    return PANIC_RE.sub('vstd::pervasive::unreached::<()>()', body)


def build(src, workdir):
    u = Unit('h2c', src)
    u.add(spec_text('group.vrs'))
    u.add("pub mod code {\nuse vstd::prelude::*;\nuse super::grp::*;\nbroadcast use group_axioms;\n")
    u.add(spec_text('h2c_traits.vrs'))
    u.close = "} // mod code\n"
    hdr = 're:^impl<PtT> MapToCurve<PtT> for PtT\\b'
    subst = (('PtT::Base', '<PtT as CurveProjective>::Base'),)
    gen = "<PtT: ClearH + IsogenyMap + OSSWUMap>"

    def sig_generic(name):
        def f(body):
            return no_panic(body, u.rewrites)
        return f
    for name, post in (('map_to_curve', 'ret.pt() == map_spec::<PtT>(*p1)'),
                       ('map2_to_curve', 'ret.pt() == map2_spec::<PtT>(*p1, *p2)')):
        t = u.real_fn('map_to_curve', hdr, name,
                      f"    where <PtT as CurveProjective>::Affine: SubgroupCheck\n    ensures {post}, smul(rorder(), ret.pt()) == gzero()",
                      body_edit=lambda b: no_panic(b, u.rewrites), subst=subst,
                      ghost=[(r'p\.clear_h\(\);', 'let ghost pre_h = p.pt();', 'before'), (r'p\.clear_h\(\);', 'proof { PtT::a4(pre_h); }', 'after')])
        # the impl-level generic parameter moves onto the function (R6: free function instead of blanket impl method)
        t = re.sub(r'fn ' + name + r'\(', f'pub fn {name}{gen}(', t, count=1)
        u.add(t)
    # ---- hash_to_curve / encode_to_curve (C06: composition only)
    hdr2 = 're:^impl<PtT, X> HashToCurve<X> for PtT\\b'
    gen2 = "<PtT: ClearH + IsogenyMap + OSSWUMap, X: ExpandMsg, "
    for name, mapfn, cnt, post in (
            ('hash_to_curve', 'map2_to_curve', 2,
             'ret.pt() == map2_spec::<PtT>(h2f_elem::<<PtT as CurveProjective>::Base, X>(msg.bytes(), dst.bytes(), 2, 0), '
             'h2f_elem::<<PtT as CurveProjective>::Base, X>(msg.bytes(), dst.bytes(), 2, 1))'),
            ('encode_to_curve', 'map_to_curve', 1,
             'ret.pt() == map_spec::<PtT>(h2f_elem::<<PtT as CurveProjective>::Base, X>(msg.bytes(), dst.bytes(), 1, 0))')):
        t = u.real_fn('hash_to_curve', hdr2, name,
                      f"    where <PtT as CurveProjective>::Affine: SubgroupCheck, <PtT as CurveProjective>::Base: FromRO\n"
                      f"    ensures {post}, smul(rorder(), ret.pt()) == gzero()",
                      subst=(('AsRef<[u8]>', 'AsRefBytes'), ('CoordT<PtT>', '<PtT as CurveProjective>::Base'),
                             (f'<PtT as MapToCurve<PtT>>::{mapfn}', f'{mapfn}::<PtT>')))
        t = re.sub(r'fn ' + name + r'<', f'pub fn {name}{gen2}', t, count=1)
        u.add(t)
    return u
