"""Unit `sswuhelp`: osswu_help instantiated at Fq and Fq2 (the projective x-candidate and the numerator /
denominator of g at it, including the exceptional branch) - C15, ring tactic."""
import re
from vx.unit import Unit, spec_text
from vx import ringjob
from units.tower import tower_env, TYPES as TOWER_TYPES, FNS as TOWER_FNS

FIELDS = {
    'Fq': dict(p='sw1', T='int', ops=dict(mul='fmul', add='fadd', sub='fsub', sq='fsq', neg='fneg', zero='fzero', one='fone', sgn='sgn0_1', **{'in': 'fin'})),
    'Fq2': dict(p='sw2', T='F2', ops=dict(mul='f2mul', add='f2add', sub='f2sub', sq='f2sq', neg='f2neg', zero='f2zero', one='f2one', sgn='sgn0_2', **{'in': 'f2in'})),
}


def sswu_spec(F):
    t = spec_text('sswu.vrs.tmpl')
    G = FIELDS[F]
    for k, v in dict(T=G['T'], p=G['p'], **G['ops']).items():
        t = t.replace('{' + k + '}', v)
    return t


def help_contract(F):
    G = FIELDS[F]
    p, o = G['p'], G['ops']
    a = "u.v(), xi.v(), ellp_a.v(), ellp_b.v()"
    return (f"    ensures ret@[0].v() == {o['sq']}(u.v()), ret@[1].v() == {o['mul']}({o['sq']}(u.v()), xi.v()), ret@[2].v() == {o['sq']}({o['mul']}({o['sq']}(u.v()), xi.v())),\n"
            f"        ret@[3].v() == {p}x0_num({a}), ret@[4].v() == {p}x0_den({a}),\n"
            f"        ret@[5].v() == {p}g_num({p}x0_num({a}), {p}x0_den({a}), ellp_a.v(), ellp_b.v()), ret@[6].v() == {p}cube({p}x0_den({a}))")


def build(src, workdir):
    u = Unit('sswuhelp', src)
    tower_env(u, symx=True)
    u.add("pub open spec fn fsq(a: int) -> int { fmul(a, a) }")
    u.symx_parts.append("pub fn fsq(a: Sym) -> Sym { fmul(a, a) }")
    u.lemma_prelude = spec_text('base.vrs') + ringjob.ARITH_LEMMAS
    rj = ringjob.RingJobs(u, dict(TOWER_TYPES), workdir)
    sx = ["#[derive(Clone, Copy, Debug)] pub struct Fq2 { pub c0: Fq, pub c1: Fq }",
          "impl Fq2 { pub fn v(&self) -> F2 { F2 { c0: self.c0.v(), c1: self.c1.v() } } pub fn from_v(x: F2) -> Fq2 { Fq2 { c0: Fq::from_v(x.c0), c1: Fq::from_v(x.c1) } } "
          "pub fn set_v(&mut self, x: F2) { *self = Fq2::from_v(x); } pub fn fresh(p: &str) -> Fq2 { Fq2 { c0: Fq::fresh(&format!(\"{}__c0\", p)), c1: Fq::fresh(&format!(\"{}__c1\", p)) } } }",
          "impl Flat for F2 { fn flat(&self, out: &mut Vec<Sym>) { self.c0.flat(out); self.c1.flat(out); } }",
          "impl Flat for Fq2 { fn flat(&self, out: &mut Vec<Sym>) { self.v().flat(out); } }",
          "impl IsZeroSym for F2 { fn zero_eqs(&self) -> Vec<(Sym, Sym)> { vec![(self.c0, fzero()), (self.c1, fzero())] } }",
          "impl PartialEq for F2 { fn eq(&self, o: &F2) -> bool { decide(\"eq\", vec![(self.c0, o.c0), (self.c1, o.c1)]) } }",
          "impl PartialEq for Fq2 { fn eq(&self, o: &Fq2) -> bool { self.v() == o.v() } }",
          "impl Fq2 {"]
    for f in TOWER_FNS:
        if f['ty'] == 'Fq2' and not f.get('nosymx'):
            si = f.get('symx_impl') or rj.symx_spec_impl(f)
            if si:
                sx.append(si)
    sx.append("}")
    u.symx_parts.append("\n".join(sx))
    for F, G in FIELDS.items():
        p, o = G['p'], G['ops']
        u.add(sswu_spec(F).split('// result (X, Y, Z)')[0])
        from vx.unit import verus_to_rust_spec
        u.symx_parts.append(verus_to_rust_spec(sswu_spec(F).split('// result (X, Y, Z)')[0]))
        a = "u.v(), xi.v(), ellp_a.v(), ellp_b.v()"
        run = dict(
            tag='""',
            code='{ let mut c: Vec<Sym> = vec![]; for k in 0..7 { c.extend(flat_vec(&r[k])); } syms_json(&c) }',
            spec=(f'{{ let mut c: Vec<Sym> = vec![]; let usq = {o["sq"]}(u.v()); let xn = {p}x0_num({a}); let xd = {p}x0_den({a}); '
                  f'c.extend(flat_vec(&usq)); c.extend(flat_vec(&{o["mul"]}(usq, xi.v()))); c.extend(flat_vec(&{o["sq"]}({o["mul"]}(usq, xi.v())))); '
                  f'c.extend(flat_vec(&xn)); c.extend(flat_vec(&xd)); c.extend(flat_vec(&{p}g_num(xn, xd, ellp_a.v(), ellp_b.v()))); c.extend(flat_vec(&{p}cube(xd))); syms_json(&c) }}'))
        mono = lambda sg, F=F: re.sub(r'\bF\b', F, re.sub(r'<F: Field>', '', sg))
        f = dict(ty=F, impl='', name='osswu_help', args=f'u: &{F}, xi: &{F}, ellp_a: &{F}, ellp_b: &{F}', upd=None, ret=None, rty=None, ring=True,
                 raw=help_contract(F), run=run, place=None, fresh_actuals=None, symx_impl=None, nosymx=True,
                 kw=dict(modkey='osswu_map', wrap=('', ''), rename=f'osswu_help_{F.lower()}', sig_edit=mono, subst=(('F::one()', f'{F}::one()'),)))
        rj.add_fn(f)
    rj.finish()
    return u
