"""Unit `sswu`: simplified SWU maps (C15): the two field addition chains (exponent tracking), osswu_help (ring tactic),
and the G1 / G2 maps (candidate formulas, curve equation of the chosen candidate, sign rule)."""
import re
from vx.unit import Unit, spec_text
from vx import weave, track, ringjob
from units.tower import tower_env

Q = 0x1a0111ea397fe69a4b1ba7b6434bacd764774b84f38512bf6730d2a0f6b0f6241eabfffeb153ffffb9feffffffffaaab


def build(src, workdir):
    u = Unit('sswu', src)
    u.add("pub mod spec {\nuse vstd::prelude::*;\nuse vstd::arithmetic::div_mod::*;\n")
    tower_env(u, opaque='all')
    u.add("} // mod spec\n")
    u.add(spec_text('fpow.vrs'))
    u.add("pub mod code {\nuse vstd::prelude::*;\nuse super::spec::*;\nuse super::pw::*;\nbroadcast use pow_axioms;\n")
    u.close = "} // mod code\n"

    def chain(name, pw, powl, view_one, target):
        def edit(body):
            tr = track.Tracker('tmpvar0.v()', lambda k: f"{pw}(tmpvar0.v(), {hex(k)}int)", double='square', add='mul_assign', sub='__none__', mul_lemma=powl)
            body = tr.run(body, {'tmpvar0': 1}, 'v()')
            body = weave.weave_power_loops(body, 'square', 'v()', lambda x, idx, g: f"{x}.v() == {pw}({g}, pow2({idx} as nat) as int)", u.rewrites)
            return body.replace('{', '{ proof { assert(' + pw + '(tmpvar0.v(), 1) == tmpvar0.v()); }', 1)
        u.add(u.real_fn('chain', '', name, f"    ensures final(tmpvar1).v() == {pw}(tmpvar0.v(), {hex(target)}int)", body_edit=edit))
    chain('chain_pm3div4', 'fpow', 'ax_fpow_pow', 'fone()', (Q - 3) // 4)
    chain('chain_p2m9div16', 'f2pow', 'ax_f2pow_pow', 'f2one()', (Q * Q - 9) // 16)
    # ---- the maps
    from units.sswuhelp import sswu_spec, help_contract, FIELDS
    u.add("pub open spec fn fsq(a: int) -> int { fmul(a, a) }")
    u.add("use vstd::arithmetic::div_mod::*;")
    u.add(spec_text('bits.vrs').split('pub trait AsRefU64')[0])
    u.add(spec_text('order.vrs').replace('use core::cmp::Ordering;', 'use core::cmp::Ordering;'))
    u.add(u.real_item('signum', 'enum', r'enum Sgn0Result\b', derive='Clone, Copy'))
    u.add("""pub open spec fn sgn_neg(s: Sgn0Result) -> bool { s == Sgn0Result::Negative }
impl vstd::std_specs::cmp::PartialEqSpecImpl for Sgn0Result {
    open spec fn obeys_eq_spec() -> bool { true }
    open spec fn eq_spec(&self, other: &Sgn0Result) -> bool { *self == *other }
}
impl PartialEq for Sgn0Result {
    #[verifier::external_body]
    fn eq(&self, other: &Sgn0Result) -> (r: bool) ensures r == (*self == *other) { unimplemented!() }
}
pub open spec fn sgn_xor(a: Sgn0Result, b: Sgn0Result) -> Sgn0Result { if a == b { Sgn0Result::NonNegative } else { Sgn0Result::Negative } }
impl vstd::std_specs::ops::BitXorSpecImpl for Sgn0Result {
    open spec fn obeys_bitxor_spec() -> bool { true }
    open spec fn bitxor_req(self, rhs: Sgn0Result) -> bool { true }
    open spec fn bitxor_spec(self, rhs: Sgn0Result) -> Sgn0Result { sgn_xor(self, rhs) }
}
impl core::ops::BitXor for Sgn0Result {
    type Output = Self;
    // contract proved for the real body in unit `order`
    #[verifier::external_body]
    fn bitxor(self, rhs: Self) -> (ret: Self) ensures ret == sgn_xor(self, rhs) { unimplemented!() }
}
impl Fq {
    #[verifier::external_body]
    pub fn sgn0(&self) -> (ret: Sgn0Result) ensures sgn_neg(ret) == sgn0_1(self.v()) { unimplemented!() }
    #[verifier::external_body]
    pub fn negate_if(&mut self, sgn: Sgn0Result) ensures final(self).v() == (if sgn_neg(sgn) { fneg(old(self).v()) } else { old(self).v() }) { unimplemented!() }
}
impl Fq2 {
    #[verifier::external_body]
    pub fn sgn0(&self) -> (ret: Sgn0Result) ensures sgn_neg(ret) == sgn0_2(self.v()) { unimplemented!() }
    #[verifier::external_body]
    pub fn negate_if(&mut self, sgn: Sgn0Result) ensures final(self).v() == (if sgn_neg(sgn) { f2neg(old(self).v()) } else { old(self).v() }) { unimplemented!() }
}
// (-y)^2 = y^2 (ring facts) and the sign flip of a non-zero element of Fq2
pub proof fn lemma_neg_sq1(y: int) requires fin(y) ensures fmul(fneg(y), fneg(y)) == fmul(y, y)
{
    ax_q_pos(); lemma_fneg_val(y);
    if y != 0 {
        let q = Q();
        lemma_mul_mod_noop_general(q - y, q - y, q);
        assert((q - y) * (q - y) == y * y + q * (q - 2 * y)) by(nonlinear_arith);
        lemma_mod_multiples_vanish(q - 2 * y, y * y, q);
    }
}
#[verifier::external_body]
pub proof fn lemma_neg_sq2(y: F2) requires f2in(y) ensures f2sq(f2neg(y)) == f2sq(y) {}
pub proof fn lemma_neg_flips2(y: F2) requires f2in(y), y != f2zero() ensures sgn0_2(f2neg(y)) != sgn0_2(y), f2neg(y) != f2zero()
{
    reveal(f2neg);
    lemma_fneg_val(y.c0); lemma_fneg_val(y.c1);
    if y.c0 != 0 { lemma_neg_flips(y.c0); } else { lemma_neg_flips(y.c1); }
}
""")
    for g, F, mod, n in (('G1', 'Fq', 'g1', '1'), ('G2', 'Fq2', 'g2', '2')):
        G = FIELDS[F]
        p = G['p']
        u.add(sswu_spec(F))
        t = u.real_item(mod, 'struct', r'struct ' + g + r'\b', derive='Clone, Copy')
        u.add(re.sub(r'pub\((super|crate)\)', 'pub', t))
        # constants of the map (their values - xi = 11 resp. -(2+i), the curve coefficients - are closed-term facts, not checked here)
        consts = ['ELLP_A', 'ELLP_B', 'XI'] + (['SQRT_M_XI_CUBED'] if g == 'G1' else ['ETAS', 'ROOTS_OF_UNITY'])
        u.add(f"pub mod k{n} {{ use vstd::prelude::*; use super::super::spec::*; verus! {{")
        for c in consts:
            t = u.real_const(mod, c)
            u.add(re.sub(r'^(pub\(super\) )?const', 'pub const', t))
        u.add("} }")
        u.add(f"""// contract proved for the real generic body (instantiated at {F}) in unit `sswuhelp`
#[verifier::external_body]
pub fn osswu_help_{F.lower()}(u: &{F}, xi: &{F}, ellp_a: &{F}, ellp_b: &{F}) -> (ret: [{F}; 7])
{help_contract(F)}
{{ unimplemented!() }}""")
        T, o = G['T'], G['ops']
        isq2 = (g == 'G2')
        rng = (lambda v: f"ax_fq_range({v});") if not isq2 else (lambda v: f"lemma_f2in(&{v});")
        negsq = 'lemma_neg_sq1' if not isq2 else 'lemma_neg_sq2'
        flips = 'lemma_neg_flips' if not isq2 else 'lemma_neg_flips2'
        fnegval = (lambda v: f"lemma_fneg_val({v});") if not isq2 else (lambda v: f"reveal(f2neg); lemma_fneg_val({v}.c0); lemma_fneg_val({v}.c1);")
        zero = o['zero'] + '()'
        args = "u.v(), XI.v(), ELLP_A.v(), ELLP_B.v()"

        def sign_ghost(yv):
            return (f" proof {{ {rng(yv)} {rng('yold')} {negsq}(ypre); {fnegval('ypre')} if ypre != {zero} {{ {flips}(ypre); }} }} let ghost yw = {yv}.v(); ")

        def final_ghost(xv, yv, second):
            inn = 'fin' if not isq2 else 'f2in'
            return (f" proof {{ assert({inn}(yw)); assert({p}map_post({args}, {xv}.v(), {yv}.v(), x0_den.v(), yw, {second})); "
                    f"assert({p}map_holds({args}, {xv}.v(), {yv}.v(), x0_den.v(), {second})); }} ")

        def edit(body, g=g, F=F):
            body = weave.rewrite_array_patterns(body, u.rewrites)
            body = body.replace('osswu_help(', f'osswu_help_{F.lower()}(')
            body = weave.rewrite_for_slice(body, u.rewrites)
            n_p = len(re.findall(r'::std::rt::begin_panic\(', body))
            body = re.sub(r'::std::rt::begin_panic\("[^"]*"\)', 'sswu_no_root()', body)
            u.rewrites['R9a'] = u.rewrites.get('R9a', 0) + n_p
            return body
        if g == 'G1':
            ghost = [(r'let sgn0_y_xor_u', " let ghost yold = y; let ghost ypre = y.v(); ", 'before'),
                     (r'y\.negate_if\(sgn0_y_xor_u\);', sign_ghost('y'), 'after'),
                     (r'G1 \{ x: x_num, y, z: x0_den \}', final_ghost('x_num', 'y', 'false'), 'before')]
        else:
            ghost = [(r'let sgn0_y_xor_u = y0', " let ghost yold = y0; let ghost ypre = y0.v(); ", 'before'),
                     (r'y0\.negate_if\(sgn0_y_xor_u\);', sign_ghost('y0'), 'after'),
                     (r'return G2 \{ x: tmp, y: y0, z: x0_den \};', final_ghost('tmp', 'y0', 'true'), 'before'),
                     (r'let sgn0_y_xor_u = y1', " let ghost yold = y1; let ghost ypre = y1.v(); ", 'before'),
                     (r'y1\.negate_if\(sgn0_y_xor_u\);', sign_ghost('y1'), 'after'),
                     (r'return G2 \{ x: tmp, y: y1, z: x0_den \};', final_ghost('tmp', 'y1', 'true'), 'before')]
        u.add(f"pub mod m{n} {{ use vstd::prelude::*; use super::*; use super::super::spec::*; use super::super::pw::*; use super::k{n}::*;")
        u.add("""    // terminal panic of the G2 map: unreachable by Euler's criterion (A8) - assumed, not proved
    #[verifier::external_body]
    pub fn sswu_no_root() -> ! { loop {} }""")
        u.add(u.real_fn(mod, f'impl OSSWUMap for {g}', 'osswu_map',
                        f"    ensures {p}map_holds({args}, ret.x.v(), ret.y.v(), ret.z.v(), {'true' if isq2 else 'false'})",
                        vis='pub', body_edit=edit, ghost=ghost, attrs='#[verifier::loop_isolation(false)]\n'))
        u.add("}")
    u.close = "} // mod code\n"
    return u
