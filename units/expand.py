"""Unit `expand`: expand_message_xmd / expand_message_xof (C13, C06): which bytes are absorbed in which order, block chaining, truncation - real generic bodies
over unit-local models of the digest traits."""
import re
from vx.unit import Unit, spec_text
from vx import weave
from vx.rs import AnchorLost

XOR_RE = re.compile(r'b_0\.iter\(\)\.zip\(&b_vals\[([^\]]*?)\.\.([^\]]*?)\]\)\.enumerate\(\)\.for_each\(\|\((\w+),\s*\((\w+),\s*(\w+)\)\)\|\s*tmp\[(\w+)\]\s*=\s*(\w+)\s*\^\s*(\w+)\s*\)\s*;', re.S)

# R20: the locals of expand_message_xmd are recognised by their role (defining expression) and renamed consistently to the names the woven ghost text uses, so that
# a renamed local is not a lost anchor.  Alpha-renaming only: refused when the new name already occurs in the body.
ROLES = [('b_in_bytes', r'let\s+(\w+)\s*=\s*<HashT as Digest>::OutputSize::to_usize\(\)'),
         ('ell', r'let\s+(\w+)\s*=\s*\(\s*len_in_bytes\s*\+'),
         ('b_0', r'let\s+(\w+)\s*=\s*HashT::new\(\)'),
         ('b_vals', r'let\s+mut\s+(\w+)\s*=\s*Vec::<u8>::with_capacity\('),
         ('idx', r'for\s+(\w+)\s+in\s+1\s*\.\.'),
         ('tmp', r'let\s+mut\s+(\w+)\s*=\s*GenericArray::<u8,\s*<HashT as Digest>::OutputSize>::default\(\)')]


def alpha_normalise(b, u):
    for canon, pat in ROLES:
        m = re.search(pat, b)
        if not m or m.group(1) == canon:
            continue
        if re.search(r'\b' + canon + r'\b', b):
            raise AnchorLost(f'expand_message_xmd: local `{m.group(1)}` plays the role of `{canon}`, but `{canon}` is used for something else')
        b = re.sub(r'\b' + re.escape(m.group(1)) + r'\b', canon, b)
        u.rewrites['R20'] = u.rewrites.get('R20', 0) + 1
    return b


def build(src, workdir):
    u = Unit('expand', src)
    # `vec![x; n]` expands to ::alloc::vec::from_elem (specified by vstd); make the path resolvable so that a body using it is judged against
    # the postcondition instead of being rejected as unsupported
    u.HEAD = u.HEAD.replace("verus! {", "extern crate alloc;\nverus! {")
    u.add("global size_of usize == 8;")
    u.add(spec_text('expand.vrs'))

    def xmd_edit(b):
        n = b.count('::std::rt::begin_panic(')
        if n != 1:
            raise AnchorLost('expand_message_xmd: the abort for ell > 255 was not found')
        b = re.sub(r'::std::rt::begin_panic\("(?:[^"\\]|\\.)*"\)', 'vstd::pervasive::unreached::<()>()', b)
        u.rewrites['R9'] = u.rewrites.get('R9', 0) + 1
        b = alpha_normalise(b, u)
        m = XOR_RE.search(b)
        if not m or not (m.group(3) == m.group(6) and {m.group(4), m.group(5)} == {m.group(7), m.group(8)} and len({m.group(3), m.group(4), m.group(5)}) == 3):
            raise AnchorLost('expand_message_xmd: the strxor expression no longer has the expected text')
        lo, hi = ' '.join(m.group(1).split()), ' '.join(m.group(2).split())
        b = b[:m.start()] + f"xor_into(&mut tmp, &b_0, vec_range(&b_vals, {lo}, {hi}));" + b[m.end():]
        u.rewrites['R5x'] = u.rewrites.get('R5x', 0) + 1
        # R19: a function-local `const NAME: [u8; N] = ...;` -> `let NAME: [u8; N] = ...;` (Verus rejects the array-repeat initialiser in const
        # context); `&NAME[..]` on such an array -> `NAME.as_slice()`
        for nm in re.findall(r'\bconst\s+([A-Z_0-9]+)\s*:\s*\[u8;', b):
            b = re.sub(r'\bconst\s+' + nm + r'\s*:', f'let {nm}:', b)
            b = re.sub(r'&' + nm + r'\[\.\.\]', f'{nm}.as_slice()', b)
            u.rewrites['R19'] = u.rewrites.get('R19', 0) + 1
        k = len(re.findall(r'&([a-z_0-9]+)\[\.\.\]', b))
        b = re.sub(r'&([a-z_0-9]+)\[\.\.\]', r'\1.full()', b)
        u.rewrites['R12'] = u.rewrites.get('R12', 0) + k
        b = b.replace('Vec::<u8>::with_capacity(', 'vec_with_capacity(')
        b = re.sub(r'b_vals\.extend_from_slice\(', 'vec_extend(&mut b_vals, ', b)
        u.rewrites['R5v'] = u.rewrites.get('R5v', 0) + 3
        inv = ("        invariant ell <= 255, ell as int == ell_of(len_in_bytes as int, b_in_bytes as int), b_in_bytes == <HashT as Digest>::OutputSize::alen(), 1 <= b_in_bytes <= 0xffff, len_in_bytes < 65536, dst@.len() <= 255,\n"
               "            b_0.bytes() == xmd_b0::<HashT>(msg@, dst@, len_in_bytes as int),\n"
               "            // (for an empty range the loop variable is unconstrained: everything about it is guarded)\n"
               "            ell >= 1 ==> (1 <= idx <= ell && b_vals@.len() == idx * b_in_bytes && b_vals@ == xmd_cat::<HashT>(msg@, dst@, len_in_bytes as int, idx as int))")
        b = weave.attach_loop_invariants(b, [inv], u.rewrites)
        b = b.replace('xor_into(&mut tmp,', 'proof { assert(idx * b_in_bytes <= 255 * 0xffff) by(nonlinear_arith) requires idx <= 255, b_in_bytes <= 0xffff; assert((idx - 1) * b_in_bytes + b_in_bytes == idx * b_in_bytes) by(nonlinear_arith); tmp.lemma_len(); } let ghost bv0 = b_vals@; xor_into(&mut tmp,', 1)
        b = re.sub(r'(\.result\(\)\.as_ref\(\)\);\s*\}\s*b_vals\.truncate)', r'.result().as_ref()); proof { lemma_xmd_step::<HashT>(msg@, dst@, len_in_bytes as int, idx as int, bv0, b_vals@, b_in_bytes as int, tmp.bytes(), [(idx + 1) as u8]@, [dst.len() as u8]@); } } b_vals.truncate', b, count=1)
        b = b.replace('b_vals.truncate(len_in_bytes);', 'proof { lemma_ell(len_in_bytes as int, b_in_bytes as int); } b_vals.truncate(len_in_bytes);', 1)
        # facts: the three length bytes, sequence bookkeeping
        b = b.replace('if ell > 255 {', 'proof { assert(ell as int == ell_of(len_in_bytes as int, b_in_bytes as int)); lemma_ell(len_in_bytes as int, b_in_bytes as int); } if ell > 255 {', 1)
        b = b.replace('let b_0 =', 'proof { lemma_len_bytes(len_in_bytes); assert(b_in_bytes >= 1); assert(ell * b_in_bytes <= 255 * 0xffff) by(nonlinear_arith) requires ell <= 255, b_in_bytes <= 0xffff; } let b_0 =', 1)
        b = b.replace('let mut b_vals =', """proof { let z = zeros(<HashT as BlockInput>::BlockSize::alen());
                assert(b_0.bytes() == <HashT as Digest>::hash(Seq::<u8>::empty() + z + msg@ + [(len_in_bytes >> 8) as u8, len_in_bytes as u8, 0u8]@ + dst@ + [dst.len() as u8]@));
                assert([(len_in_bytes >> 8) as u8, len_in_bytes as u8, 0u8]@ =~= i2osp2(len_in_bytes as int) + seq![0u8]);
                assert([dst.len() as u8]@ =~= seq![dst@.len() as u8]);
                assert(Seq::<u8>::empty() + z + msg@ + (i2osp2(len_in_bytes as int) + seq![0u8]) + dst@ + seq![dst@.len() as u8] =~= z + msg@ + i2osp2(len_in_bytes as int) + seq![0u8] + dst_prime(dst@));
                assert(b_0.bytes() == xmd_b0::<HashT>(msg@, dst@, len_in_bytes as int)); }
            let mut b_vals =""", 1)
        b = b.replace('for idx in 1..ell', """proof { b_0.lemma_len(); let b1 = xmd_b::<HashT>(msg@, dst@, len_in_bytes as int, 1);
                assert([1u8]@ =~= seq![1u8]); assert([dst.len() as u8]@ =~= seq![dst@.len() as u8]);
                assert(Seq::<u8>::empty() + b_0.bytes() + seq![1u8] + dst@ + seq![dst@.len() as u8] =~= b_0.bytes() + seq![1u8] + dst_prime(dst@));
                assert(xmd_cat::<HashT>(msg@, dst@, len_in_bytes as int, 0) =~= Seq::<u8>::empty());
                assert(Seq::<u8>::empty() + b1 =~= b1); lemma_hash_len::<HashT>(b_0.bytes() + seq![1u8] + dst_prime(dst@));
                let inp = Seq::<u8>::empty() + b_0.bytes() + [1u8]@ + dst@ + [dst.len() as u8]@;
                assert(inp =~= b_0.bytes() + seq![1u8] + dst_prime(dst@));
                assert(b_vals@ =~= Seq::<u8>::empty() + <HashT as Digest>::hash(inp));
                assert(b1 == <HashT as Digest>::hash(xmd_b0::<HashT>(msg@, dst@, len_in_bytes as int) + seq![1u8] + dst_prime(dst@)));
                assert(b_vals@ =~= b1);
                assert(xmd_cat::<HashT>(msg@, dst@, len_in_bytes as int, 1) == xmd_cat::<HashT>(msg@, dst@, len_in_bytes as int, 0) + b1);
                assert(1 * b_in_bytes == b_in_bytes); }
            for idx in 1..ell""", 1)
        return b
    u.add(u.real_fn('hash_to_field', 're:impl<HashT> ExpandMsg for ExpandMsgXmd<HashT>', 'expand_message',
                    "    requires dst@.len() <= 255, len_in_bytes < 65536, 1 <= <HashT as Digest>::OutputSize::alen() <= 0xffff,\n"
                    "        ell_of(len_in_bytes as int, <HashT as Digest>::OutputSize::alen() as int) <= 255\n"
                    "    ensures ret@ == xmd::<HashT>(msg@, dst@, len_in_bytes as int)",
                    ret='ret', vis='pub', rename='expand_message_xmd', body_edit=xmd_edit,
                    sig_edit=lambda sg: sg.replace('fn expand_message(', 'fn expand_message<HashT: Digest + BlockInput>(')))
    u.add(u.real_fn('hash_to_field', 're:impl<HashT> ExpandMsg for ExpandMsgXof<HashT>', 'expand_message',
                    "    requires dst@.len() <= 255, len_in_bytes < 65536\n    ensures ret@ == xof_msg::<HashT>(msg@, dst@, len_in_bytes as int)",
                    ret='ret', vis='pub', rename='expand_message_xof',
                    sig_edit=lambda sg: sg.replace('fn expand_message(', 'fn expand_message<HashT: Xof>('),
                    body_edit=lambda b: b.replace('{', """{ proof { lemma_len_bytes(len_in_bytes);
                assert([(len_in_bytes >> 8) as u8, len_in_bytes as u8]@ =~= i2osp2(len_in_bytes as int)); assert([dst.len() as u8]@ =~= seq![dst@.len() as u8]);
                assert(Seq::<u8>::empty() + msg@ + i2osp2(len_in_bytes as int) + dst@ + seq![dst@.len() as u8] =~= msg@ + i2osp2(len_in_bytes as int) + dst_prime(dst@)); }""", 1)))
    return u
