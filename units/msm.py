"""Unit `msm`: multi-scalar multiplication (C10): the table-driven variant and the bucket method return sum [k_i]P_i."""
import re
from vx.unit import Unit, spec_text
from vx import weave
from vx.rs import Source
from units.cofactor import env_text
from units.precomp import byte_expr, CH

GROUPS = {'G1': dict(mod='g1', aff='G1Affine'), 'G2': dict(mod='g2', aff='G2Affine')}
KS = "|t: int| limbs_val(scalars@[t]@) as int"
PS = "|t: int| points@[t].pt()"


def build(src, workdir):
    u = Unit('msm', src)
    env_text(u, group='group_axioms_basic')
    u.add("use vstd::arithmetic::div_mod::*;")
    u.add("global size_of usize == 8;      // the crate is checked for 64-bit targets (index arithmetic `j << 8`)")
    u.add(spec_text('bits.vrs'))
    u.add(spec_text('precomp.vrs'))
    u.add(spec_text('msm.vrs'))
    import os
    for g, G in GROUPS.items():
        if os.environ.get('MSM_ONLY') and os.environ['MSM_ONLY'] != g:
            continue
        aff = G['aff']

        def pre_edit(body):
            ml = re.search(r'let mut byte = \(scalars\[j\]\[3\] >> \(i \+ 25\)\).*?(?=res\.add_assign_mixed)', body, re.S)
            if not ml:
                raise weave.AnchorLost("anchor lost: byte extraction in sum_of_products_precomp_256")
            el = byte_expr(ml.group(0), arr=r'scalars\[j\]')
            factsl = " ".join(f"assert(bitu(byte, {k}) == bitu({CH[k]}, i as u64)) by(bit_vector) requires byte == {el}, 0 <= i < 32;" for k in range(8))
            ghostl = (f" proof {{ let w0 = scalars[j as int][0]; let w1 = scalars[j as int][1]; let w2 = scalars[j as int][2]; let w3 = scalars[j as int][3]; {factsl} "
                      f"assert(byte <= 255) by(bit_vector) requires byte == {el}, 0 <= i < 32; "
                      f"assert((j << 8) == 256 * j) by(bit_vector) requires j < 0x80_0000_0000_0000; "
                      f"assert(sub_sum(byte) == digit(scalars@[j as int]@, i as u64)); "
                      f"assert(pre@[256 * (j as int) + (byte as int)].pt() == smul(sub_sum(byte), points@[j as int].pt())); "
                      f"ax_gadd_assoc(gadd(l0, l0), lin(|t: int| digit(scalars@[t]@, i as u64), {PS}, j as int), smul(digit(scalars@[j as int]@, i as u64), points@[j as int].pt())); }} ")
            body = weave.rewrite_rev_range(body, u.rewrites, [
                f"    invariant 0 <= i <= 32, n == num_components, n == min_len(points@.len() as int, scalars@.len() as int), is_table256_multi(pre@, points@, n), pre@.len() < 0x8000_0000_0000_0000,\n"
                f"        res.pt() == lin(|t: int| acc(scalars@[t]@, i as u64), {PS}, n)"])
            body = weave.attach_loop_invariants(body, [None, (
                f"        invariant 0 <= i < 32, n == num_components, n == min_len(points@.len() as int, scalars@.len() as int), is_table256_multi(pre@, points@, n), pre@.len() < 0x8000_0000_0000_0000,\n"
                f"            res.pt() == gadd(gadd(l0, l0), lin(|t: int| digit(scalars@[t]@, i as u64), {PS}, j as int))")], u.rewrites)
            body = body.replace('res.double();', f"let ghost l0 = res.pt(); res.double();", 1)
            body = body.replace('res.add_assign_mixed(&pre[(j << 8) + byte as usize]);', ghostl + 'res.add_assign_mixed(&pre[(j << 8) + byte as usize]);', 1)
            # before the outer loop: every accumulator is 0; after the inner loop: 2 L(acc_{i+1}) + L(digit_i) = L(acc_i); at the end acc_0 is the scalar
            body = body.replace('let mut i = 32;', f"""let ghost n = num_components as int;
                proof {{ assert forall|t: int| 0 <= t < n implies acc(#[trigger] scalars@[t]@, 32) == 0 by {{ lemma_acc_32(scalars@[t]@); }}
                        lemma_lin_zero(|t: int| acc(scalars@[t]@, 32), {PS}, n); }} let mut i = 32;""", 1)
            src = Source(body)
            fo = body.index('for j in 0..num_components')
            bo = body.index('{', body.index('decreases', fo) if 'decreases' in body[fo:fo + 900] else fo)
            # the inner loop body is the first `{` after its invariant block
            m = re.search(r'for j in 0\.\.num_components\s*\n\s*invariant[^{]*\{', body)
            bc = src.match_close(m.end() - 1)
            after = f""" proof {{ let a1 = |t: int| acc(scalars@[t]@, (i + 1) as u64); let d1 = |t: int| digit(scalars@[t]@, i as u64);
                    lemma_lin_double_add(a1, d1, {PS}, n);
                    assert forall|t: int| 0 <= t < n implies 2 * #[trigger] a1(t) + d1(t) == acc(scalars@[t]@, i as u64) by {{ lemma_acc_step(scalars@[t]@, i as u64); }}
                    lemma_lin_ext(|t: int| 2 * a1(t) + d1(t), |t: int| acc(scalars@[t]@, i as u64), {PS}, {PS}, n); }} """
            body = body[:bc + 1] + after + body[bc + 1:]
            body = weave.insert_tail(body, f""" proof {{ assert forall|t: int| 0 <= t < n implies acc(#[trigger] scalars@[t]@, 0) == limbs_val(scalars@[t]@) by {{ lemma_acc_zero(scalars@[t]@); }}
                    lemma_lin_ext(|t: int| acc(scalars@[t]@, 0), {KS}, {PS}, {PS}, n); }} """)
            return body
        u.add(f"impl {aff} {{")
        u.add(u.real_fn(G['mod'], f'impl CurveAffine for {aff}', 'sum_of_products_precomp_256',
                        f"    requires is_table256_multi(pre@, points@, min_len(points@.len() as int, scalars@.len() as int)), pre@.len() < 0x8000_0000_0000_0000\n"
                        f"    ensures ret.pt() == lin({KS}, {PS}, min_len(points@.len() as int, scalars@.len() as int))", vis='pub',
                        sig_edit=lambda sg, aff=aff: re.sub(r'&\[Self\]', f'&[{aff}]', sg),
                        subst=(('Self::Projective::zero()', f'{g}::zero()'),),
                        body_edit=pre_edit))
        import os
        if not os.environ.get('MSM_NOPIP'):
          u.add(u.real_fn(G['mod'], f'impl CurveAffine for {aff}', 'sum_of_products_pippinger',
                        f"    requires 1 <= window <= 20, forall|t: int| 0 <= t < min_len(points@.len() as int, scalars@.len() as int) ==> limbs_val(#[trigger] scalars@[t]@) < pow2(255)\n"
                        f"    ensures ret.pt() == lin({KS}, {PS}, min_len(points@.len() as int, scalars@.len() as int))", vis='pub',
                        attrs='#[verifier::loop_isolation(false)]\n#[verifier::allow_complex_invariants]\n',
                        sig_edit=lambda sg, aff=aff: re.sub(r'&\[Self\]', f'&[{aff}]', sg),
                        subst=(('Self::Projective::zero()', f'{g}::zero()'),),
                        body_edit=lambda b: pip_edit(u, b)))
        # the default entry point: the bucket method with the window chosen by find_pippinger_window (1..=16 for every n: unit kani:window of this property)
        u.add("""    #[verifier::external_body]
    pub fn find_pippinger_window(num_components: usize) -> (ret: usize) ensures 1 <= ret <= 16 { unimplemented!() }""")
        if not os.environ.get('MSM_NOPIP'):
          u.add(u.real_fn(G['mod'], f'impl CurveAffine for {aff}', 'sum_of_products',
                        f"    requires forall|t: int| 0 <= t < min_len(points@.len() as int, scalars@.len() as int) ==> limbs_val(#[trigger] scalars@[t]@) < pow2(255)\n"
                        f"    ensures ret.pt() == lin({KS}, {PS}, min_len(points@.len() as int, scalars@.len() as int))", vis='pub',
                        sig_edit=lambda sg, aff=aff: re.sub(r'&\[Self\]', f'&[{aff}]', sg)))
        u.add("}")
    u.close = "} // mod code\n"
    return u


KV = "|t: int| limbs_val(scalars@[t]@)"


def pip_edit(u, body):
    """sum_of_products_pippinger: invariants and ghost steps (the executable statements are untouched)"""
    from units.h2c import no_panic
    body = no_panic(body, u.rewrites)
    # R12v: rustc's expansion of vec![x; n] names alloc::vec::from_elem through the crate root; written with std's path
    n = body.count('::alloc::vec::from_elem(')
    u.rewrites['R12v'] = u.rewrites.get('R12v', 0) + n
    body = body.replace('::alloc::vec::from_elem(', 'std::vec::from_elem(')
    body = weave.name_for_binders(body, u.rewrites)
    DG = "|t: int| dig(limbs_val(scalars@[t]@), lo, ww) as int"
    BK = "|b: int| buckets@[b].pt()"

    def must(old, new, count=1):
        nonlocal body
        if body.count(old) < count:
            raise weave.AnchorLost(f"anchor lost in sum_of_products_pippinger: `{old[:60]}`")
        body = body.replace(old, new, count)

    # ---- facts needed by the overflow checks of the shifts that build the masks
    must('let num_buckets =', 'proof { lemma_shl_usize_b(window as usize); lemma_pow2_le20(window as nat); lemma_pow2_pos(window as nat); } let num_buckets =')
    must('let smaller_mask =', 'proof { lemma_shl_i32_b((bit_index + 1) as usize); lemma_pow2_le20((bit_index + 1) as nat); } let smaller_mask =')
    must('let high_order_mask =', 'proof { lemma_shl_i32_b((bit_index + 1) as usize); lemma_pow2_le20((bit_index + 1) as nat); lemma_shl_i32_b((edge - bit_index) as usize); lemma_pow2_le20((edge - bit_index) as nat); } let high_order_mask =')
    # ---- set-up facts
    must('let mut bit_sequence_index = 255;', f"""proof {{ lemma_shl_usize_b(window as usize); lemma_pow2_le20(window as nat); lemma_pow2_pos(window as nat); }}
        let ghost n = num_components as int;
        proof {{ assert forall|b: int| 0 <= b < num_buckets implies buckets@[b].pt() == gzero() by {{ }}
                assert forall|t: int| 0 <= t < n implies (#[trigger] limbs_val(scalars@[t]@)) / pow2(256) == 0 by {{ lemma_limbs_bound(scalars@[t]@); lemma_small_div(limbs_val(scalars@[t]@), pow2(256)); }}
                lemma_lin_zero(|t: int| (limbs_val(scalars@[t]@) / pow2(256)) as int, {PS}, n); }}
        let mut bit_sequence_index = 255;""")
    # ---- the outer loop
    must('loop {', f"""loop
        invariant_except_break
            bit_sequence_index <= 255, buckets@.len() == num_buckets,
            forall|b: int| 0 <= b < num_buckets ==> #[trigger] buckets@[b].pt() == gzero(),
            num_doubles == (if bit_sequence_index == 255 {{ 0 }} else if bit_sequence_index >= edge {{ window }} else {{ (bit_sequence_index + 1) as usize }}),
            res.pt() == lin(|t: int| (limbs_val(scalars@[t]@) / pow2((bit_sequence_index + 1) as nat)) as int, {PS}, n),
        ensures res.pt() == lin({KS}, {PS}, n)
        decreases bit_sequence_index
    {{ let ghost hi: nat = (bit_sequence_index + 1) as nat;
       let ghost ww: nat = if bit_sequence_index >= edge {{ window as nat }} else {{ (bit_sequence_index + 1) as nat }};
       let ghost lo: nat = (hi - ww) as nat;
       let ghost rh = res.pt();
       proof {{ lemma_bsi_split(bit_sequence_index); }}""")
    # the doubling loop
    must('for _i1 in 0..num_doubles', """for _i1 in 0..num_doubles
            invariant res.pt() == smul(pow2(_i1 as nat) as int, rh), smul(1, rh) == rh, buckets@.len() == num_buckets,
                forall|b: int| 0 <= b < num_buckets ==> #[trigger] buckets@[b].pt() == gzero()
        """)
    must('{ res.double(); }', '{ res.double(); proof { ax_smul_add(pow2(_i1 as nat) as int, pow2(_i1 as nat) as int, rh); assert(pow2((_i1 + 1) as nat) == 2 * pow2(_i1 as nat)); } }')
    must('let mut max_bucket = 0;', f""" proof {{ // after the doublings: res == L(2^ww * (k >> hi))
            let pre = |t: int| (limbs_val(scalars@[t]@) / pow2(hi)) as int;
            if bit_sequence_index == 255 {{
                lemma_lin_ext(|t: int| (limbs_val(scalars@[t]@) / pow2(256)) as int, pre, {PS}, {PS}, n);
                assert(rh == gzero()); ax_smul_of_zero(pow2(ww) as int); assert(pow2(0) == 1); }}
            assert(res.pt() == smul(pow2(ww) as int, rh));
            lemma_lin_scale(pow2(ww) as int, pre, {PS}, n); }}
        let ghost r1 = res.pt();
        proof {{ lemma_lin_tail_zero({BK}, 0, num_buckets as int); }}
        let mut max_bucket = 0;""")
    # the three accumulation loops share their invariant
    acc_inv = f"""
            invariant buckets@.len() == num_buckets, max_bucket < num_buckets, buckets@[0].pt() == gzero(), res.pt() == r1,
                forall|b: int| max_bucket < b < num_buckets ==> #[trigger] buckets@[b].pt() == gzero(),
                lin(idc(), {BK}, num_buckets as int) == lin({DG}, {PS}, i as int)
        """
    for k in range(3):
        must('for i in 0..num_components {', 'for i in 0..num_components' + acc_inv + '{ let ghost b_old = ' + BK + '; ', 1)
    # digit facts, one per case (in source order: low word, straddle, aligned)
    must('if bucket_index > 0 {', f"""proof {{ // case: lowest word, short last window
            lemma_shl_i32_b((bit_index + 1) as usize); lemma_and_mask(scalars[i as int][0], (bit_index + 1) as u64, smaller_mask);
            lemma_dig_aligned(scalars@[i as int]@, 0, 0, ww); assert(pow2(0) == 1);
            lemma_dig_split(limbs_val(scalars@[i as int]@), lo, ww); lemma_pow2_mono(ww, window as nat); }}
        if bucket_index > 0 {{""", 1)
    body = body.replace('if bucket_index > 0 {{', 'if bucket_index > 0 {')
    # mark the first occurrence as done by renaming temporarily
    body = body.replace('if bucket_index > 0 {', 'if bucket_index > 0 /*1*/ {', 1)
    must('if bucket_index > 0 {', f"""proof {{ // case: the window straddles words word_index-1 and word_index
            let a = scalars[i as int][prev_word_index as int]; let bq = scalars[i as int][word_index as int];
            lemma_shl_i32_b((bit_index + 1) as usize); lemma_shl_i32_b(high_order_shift);
            lemma_and_mask(bq, (bit_index + 1) as u64, high_order_mask);
            lemma_shr_div(a, low_order_shift as u64);
            lemma_and_mask((a >> (low_order_shift as u64)), high_order_shift as u64, low_order_mask);
            lemma_dig_straddle(scalars@[i as int]@, word_index as int, high_order_shift as nat, (bit_index + 1) as nat);
            let hv = bq & high_order_mask; let lv = (a >> (low_order_shift as u64)) & low_order_mask;
            lemma_pow2_pos((bit_index + 1) as nat); lemma_mod_bound(bq as int, pow2((bit_index + 1) as nat) as int); lemma_pow2_le20((bit_index + 1) as nat);
            lemma_small_mod((a as nat) / pow2(low_order_shift as nat), pow2(high_order_shift as nat));
            lemma_shl_mul(hv, high_order_shift as u64); lemma_or_add(hv, lv, high_order_shift as u64);
            assert(pow2(high_order_shift as nat) * (hv as nat) == (hv as nat) * pow2(high_order_shift as nat)) by(nonlinear_arith);
            lemma_dig_split(limbs_val(scalars@[i as int]@), lo, ww); }}
        if bucket_index > 0 /*2*/ {{""".replace('{{', '{').replace('}}', '}'), 1)
    must('if bucket_index > 0 {', f"""proof {{ // case: the window lies inside word_index
            lemma_shr_div(scalars[i as int][word_index as int], shift as u64);
            lemma_and_mask((scalars[i as int][word_index as int] >> (shift as u64)), window as u64, mask);
            lemma_dig_aligned(scalars@[i as int]@, word_index as int, shift as nat, ww);
            lemma_dig_split(limbs_val(scalars@[i as int]@), lo, ww); }}
        if bucket_index > 0 /*3*/ {{""".replace('{{', '{').replace('}}', '}'), 1)
    # every bucket update is followed by the weighted-sum step
    upd = 'buckets[bucket_index].add_assign_mixed(&points[i]);'
    if body.count(upd) != 3:
        raise weave.AnchorLost("anchor lost: bucket updates")
    body = body.replace(upd, upd + f" proof {{ lemma_wsum_update(b_old, {BK}, bucket_index as int, points@[i as int].pt(), num_buckets as int); }}")
    # the assertion on the top bit needs the bound on the scalars
    must('if !(bit_sequence_index != 255 || scalars[i][3] >> 63 == 0)', 'proof { lemma_top_bit(scalars@[i as int]@); } if !(bit_sequence_index != 255 || scalars[i][3] >> 63 == 0)')
    # ---- reduction of the buckets
    must('res.add_assign(&buckets[max_bucket]);', f"""let ghost b0 = {BK};
        res.add_assign(&buckets[max_bucket]);
        proof {{ assert(suf(b0, max_bucket as int + 1, max_bucket as int) == gzero()); assert(tsum(b0, max_bucket as int + 1, max_bucket as int) == gzero()); }}""")
    body = weave.rewrite_rev_range(body, u.rewrites, [f"""            invariant i <= max_bucket, max_bucket >= 1 ==> i >= 1, buckets@.len() == num_buckets, max_bucket < num_buckets, buckets@[0].pt() == gzero(),
                forall|b: int| 0 <= b < i ==> #[trigger] buckets@[b].pt() == b0(b),
                forall|b: int| i < b < num_buckets ==> #[trigger] buckets@[b].pt() == gzero(),
                max_bucket >= 1 ==> buckets@[i as int].pt() == suf(b0, i as int, max_bucket as int),
                max_bucket >= 1 ==> res.pt() == gadd(r1, tsum(b0, i as int, max_bucket as int)),
                max_bucket == 0 ==> res.pt() == gadd(r1, b0(0))"""])
    must('buckets[i + 1] = G', f""" proof {{ let sm = suf(b0, i as int, max_bucket as int); let tm = tsum(b0, i as int + 1, max_bucket as int);
            ax_gadd_assoc(r1, tm, sm); ax_gadd_comm(tm, sm); }} buckets[i + 1] = G""")
    must('if bit_sequence_index < window { break; }', f""" proof {{ // res == r1 + sum b * bucket(b) == L(2^ww (k >> hi)) + L(digit) == L(k >> lo)
            if max_bucket >= 1 {{ lemma_tsum_wsum(b0, max_bucket as int); lemma_lin_tail_zero(b0, max_bucket as int + 1, num_buckets as int); }}
            else {{ lemma_lin_tail_zero(b0, 1, num_buckets as int); assert(lin(idc(), b0, 0) == gzero()); assert(idc()(0) == 0); }}
            let pre = |t: int| (limbs_val(scalars@[t]@) / pow2(hi)) as int;
            let sc = |t: int| (pow2(ww) as int) * pre(t);
            let dg = {DG};
            lemma_lin_add(sc, dg, {PS}, n);
            assert forall|t: int| 0 <= t < n implies #[trigger] sc(t) + dg(t) == (limbs_val(scalars@[t]@) / pow2(lo)) as int by {{
                lemma_dig_split(limbs_val(scalars@[t]@), lo, ww);
                assert(lo + ww == hi);
                let kq = (limbs_val(scalars@[t]@) / pow2(hi)) as int; let pw = pow2(ww) as int;
                assert(pw * kq == kq * pw) by(nonlinear_arith);
                assert(sc(t) == pw * kq);
                let kk = limbs_val(scalars@[t]@);
                assert(dg(t) == dig(kk, lo, ww) as int);
                assert(pow2(lo + ww) == pow2(hi));
                assert(kk / pow2(lo) == (kk / pow2(hi)) * pow2(ww) + dig(kk, lo, ww));
                let xq: nat = kk / pow2(hi); let yq: nat = pow2(ww);
                assert((xq * yq) as int == (xq as int) * (yq as int)) by(nonlinear_arith); }}
            lemma_lin_ext(|t: int| sc(t) + dg(t), |t: int| (limbs_val(scalars@[t]@) / pow2(lo)) as int, {PS}, {PS}, n);
            assert forall|b: int| 0 <= b < num_buckets implies #[trigger] buckets@[b].pt() == gzero() by {{ }}
            if bit_sequence_index < window {{
                assert(lo == 0); assert(pow2(0) == 1);
                lemma_lin_ext(|t: int| (limbs_val(scalars@[t]@) / pow2(lo)) as int, {KS}, {PS}, {PS}, n); }}
        }}
        if bit_sequence_index < window {{ break; }}""".replace('{{', '{').replace('}}', '}'))
    return body
