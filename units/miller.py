"""Unit `miller`: Bls12::miller_loop over a list of prepared pairs equals the product of the single-pair loops, pairs with an identity contribute 1 (C11).
Real body with the generic iterator argument written out at a slice of pairs (R6), the `for` loops over the pair list desugared to index loops (R21/R22),
`Vec::iter` replaced by a verified model of the slice iterator; the nested fn `ell` is verified against the sparse product."""
import re
from vx.unit import Unit, spec_text
from vx import weave
from vx.rs import Source, AnchorLost
from units.tower import tower_env

PASS_RE = re.compile(r'for\s+&mut\s+\(\s*(\w+)\s*,\s*ref\s+mut\s+(\w+)\s*\)\s+in\s+&mut\s+(\w+)\s*\{')
FILT_RE = re.compile(r'for\s+&\(\s*(\w+)\s*,\s*(\w+)\s*\)\s+in\s+i\s*\{')


def build(src, workdir):
    u = Unit('miller', src)
    u.HEAD = u.HEAD.replace("verus! {", "verus! {\nglobal size_of usize == 8;")
    u.add("pub mod spec {\nuse vstd::prelude::*;\nuse vstd::arithmetic::div_mod::*;\n")
    tower_env(u, opaque='all')
    u.add(re.sub(r'pub\((super|crate)\)', 'pub', u.real_item('g1', 'struct', r'struct G1Affine\b', derive='Clone, Copy')))
    u.add(re.sub(r'pub\((super|crate)\)', 'pub', u.real_item('g1', 'struct', r'struct G1Prepared\b')))
    u.add(re.sub(r'pub\((super|crate)\)', 'pub', u.real_item('g2', 'struct', r'struct G2Prepared\b')))
    u.add(re.sub(r'pub\((super|crate)\)', 'pub', u.real_item('g2', 'struct', r'struct G2Affine\b', derive='Clone, Copy')))
    u.add(re.sub(r'pub\((super|crate)\)', 'pub', u.real_item('g2', 'struct', r'struct G2\b', derive='Clone, Copy')))
    u.add(spec_text('f12pow.vrs'))
    ms = spec_text('miller.vrs')
    # the two is_zero methods of the prepared types: real bodies (they decide which pairs are skipped)
    z1 = u.real_fn('g1', 'impl G1Prepared', 'is_zero', "    ensures ret == self.0.infinity", vis='pub')
    z2 = u.real_fn('bls12_381', 'impl G2Prepared', 'is_zero', "    ensures ret == self.infinity", vis='pub')
    ms = ms.replace("// the line value the loop multiplies in", "impl G1Prepared {\n" + z1 + "}\nimpl G2Prepared {\n" + z2 + "}\n// the line value the loop multiplies in", 1)
    u.add(ms)
    u.add(PROOFS)
    u.add("} // mod spec\npub mod code {\nuse vstd::prelude::*;\nuse vstd::arithmetic::div_mod::*;\nuse super::spec::*;\n")
    u.add(u.real_const('bls12_381', 'BLS_X'))
    u.add(u.real_const('bls12_381', 'BLS_X_IS_NEGATIVE'))
    if 'true' not in u.real_const('bls12_381', 'BLS_X_IS_NEGATIVE'):
        raise AnchorLost('BLS_X_IS_NEGATIVE is no longer true: the specification ml1 (conjugated Miller value) does not apply')

    ell_text = [None]

    def edit(b):
        # ---- the nested fn `ell` is lifted out (verified below with its own contract)
        m = re.search(r'fn ell\(f: &mut Fq12, coeffs: &\(Fq2, Fq2, Fq2\), p: &G1Affine\)\s*\{', b)
        if not m:
            raise AnchorLost('nested fn ell not found')
        s = Source(b)
        bc = s.match_close(m.end() - 1)
        ell_text[0] = (b[m.start():m.end() - 1], b[m.end() - 1:bc + 1])
        b = b[:m.start()] + b[bc + 1:]
        u.rewrites['R23'] = u.rewrites.get('R23', 0) + 1
        # ---- R12v: vec![] ; R21: Vec::iter -> the verified slice-iterator model
        m = FILT_RE.search(b)
        if not m:
            raise AnchorLost('miller_loop: the filtering loop `for &(p, q) in i` not found')
        qn = m.group(2)
        if b.count(f'{qn}.coeffs.iter()') != 1:
            raise AnchorLost('miller_loop: `<q>.coeffs.iter()` not found')
        u.rewrites['R12v'] = u.rewrites.get('R12v', 0) + b.count('::alloc::vec::Vec::new()')
        b = b.replace('::alloc::vec::Vec::new()', 'Vec::new()').replace(f'{qn}.coeffs.iter()', f'vec_iter(&{qn}.coeffs)')
        u.rewrites['R21'] = u.rewrites.get('R21', 0) + 1
        # ---- R22: `for &(p, q) in i { B }` over the slice -> index loop
        m = FILT_RE.search(b)
        if not m:
            raise AnchorLost('miller_loop: the filtering loop `for &(p, q) in i` not found')
        s = Source(b)
        bc = s.match_close(m.end() - 1)
        inner = b[m.end():bc]
        if re.search(r'\b(break|continue|return)\b', inner):
            raise AnchorLost('miller_loop: control flow in the filtering loop')
        p_, q_ = m.group(1), m.group(2)
        filt = (f"let mut k_: usize = 0;\n while k_ < i.len()\n{FILT_INV}\n{{ let {p_} = i[k_].0; let {q_} = i[k_].1; {FILT_PRE} {inner} {FILT_POST} k_ += 1; }} {FILT_AFTER}")
        b = b[:m.start()] + filt + b[bc + 1:]
        u.rewrites['R22'] = u.rewrites.get('R22', 0) + 1
        # ---- R22m: `for &mut (p, ref mut coeffs) in &mut pairs { B }` -> index loop with the element borrowed mutably
        n = 0
        while True:
            m = PASS_RE.search(b)
            if not m:
                break
            s = Source(b)
            bc = s.match_close(m.end() - 1)
            inner = b[m.end():bc]
            if re.search(r'\b(break|continue|return)\b', inner):
                raise AnchorLost('miller_loop: control flow in a pass over the pairs')
            p_, c_, v_ = m.group(1), m.group(2), m.group(3)
            new = (f"let mut j_: usize = 0; {PASS_BEFORE}\n while j_ < {v_}.len()\n{PASS_INV}\n{{ {PASS_PRE} let e_ = &mut {v_}[j_]; let {p_} = e_.0; let {c_} = &mut e_.1; {inner} {PASS_POST} j_ += 1; }} {PASS_AFTER}")
            b = b[:m.start()] + new + b[bc + 1:]
            n += 1
        if n != 3:
            raise AnchorLost(f'miller_loop: {n} passes over the pairs found, 3 expected')
        u.rewrites['R22m'] = u.rewrites.get('R22m', 0) + n
        # ---- R1: the loop over the bits of BLS_X >> 1
        if b.count('BitIterator::new(&[BLS_X >> 1])') != 1:
            raise AnchorLost('miller_loop: BitIterator::new(&[BLS_X >> 1]) not found')
        b = b.replace('BitIterator::new(&[BLS_X >> 1])', 'BitIterator::new([BLS_X >> 1])')
        u.rewrites['R6'] = u.rewrites.get('R6', 0) + 1
        b = weave.rewrite_for_iter(b, u.rewrites, [dict(invariant=BITS_INV, ghost_before=BITS_BEFORE, ghost_arm=BITS_ARM, ghost_after=BITS_AFTER)])
        if b.count('found_one = i;') != 1 or b.count('f.square();') != 1 or b.count('f.conjugate();') != 1:
            raise AnchorLost('miller_loop: anchors found_one / square / conjugate')
        b = re.sub(r'Some\(i\) => \{', 'Some(i) => { ' + ARM_HEAD, b, count=1)
        b = b.replace('found_one = i;', 'found_one = i; ' + SKIP_GHOST, 1)
        b = b.replace('f.square();', 'f.square(); ' + SQUARE_GHOST, 1)
        b = b.replace('f.conjugate();', 'f.conjugate(); ' + CONJ_GHOST, 1)
        return b

    contract = ("    requires wf_pairs(i@)\n"
                "    ensures ret.v() == sprod(mlkv(i@))")
    sig_new = "fn miller_loop<'a>(i: &'a [(&'a G1Prepared, &'a G2Prepared)]) -> Fq12"
    main = u.real_fn('bls12_381', 'impl Engine for Bls12', 'miller_loop', contract, vis='pub', body_edit=edit,
                     sig_edit=lambda sg: sig_new, attrs='#[verifier::exec_allows_no_decreases_clause]\n')
    sig, body = ell_text[0]
    u.functions.append('bls12_381|impl Engine for Bls12|miller_loop::ell')
    body = body[:body.rstrip().rfind('}')] + " proof { reveal(f12mul_by_014); }\n}"
    u.add(f"pub {sig.strip()}\n    ensures final(f).v() == f12mul(old(f).v(), lin(*coeffs, *p))\n{body}\n")
    u.add(main)

    # ---- G2Prepared::from_affine: the identity marker and the NUMBER of coefficients (what miller_loop's precondition asks for); the line coefficients
    #      themselves (nested fns doubling_step / addition_step) are C03's subject and enter as uncontracted stubs
    def fa_edit(b):
        for nm in ('doubling_step', 'addition_step'):
            m = re.search(r'fn ' + nm + r'\([^)]*\)\s*->\s*\(Fq2, Fq2, Fq2\)\s*\{', b)
            if not m:
                raise AnchorLost(f'from_affine: nested fn {nm} not found')
            bc = Source(b).match_close(m.end() - 1)
            STUBS.append('#[verifier::external_body]\npub ' + b[m.start():m.end() - 1].strip() + ' { unimplemented!() }')
            b = b[:m.start()] + b[bc + 1:]
            u.rewrites['R23'] = u.rewrites.get('R23', 0) + 1
        if b.count('BitIterator::new([BLS_X >> 1])') != 1:
            raise AnchorLost('from_affine: BitIterator::new([BLS_X >> 1])')
        u.rewrites['R12v'] = u.rewrites.get('R12v', 0) + b.count('::alloc::vec::Vec::new()')
        b = b.replace('::alloc::vec::Vec::new()', 'Vec::new()')
        b = weave.rewrite_for_iter(b, u.rewrites, [dict(invariant=FA_INV, ghost_before=BITS_BEFORE + " proof { lemma_kidx_x(); }", ghost_after=BITS_AFTER)])
        b = re.sub(r'Some\(i\) => \{', 'Some(i) => { ' + FA_HEAD, b, count=1)
        return b
    STUBS = []
    fa = u.real_fn('bls12_381', 'impl G2Prepared', 'from_affine', "    ensures ret.infinity == q.infinity, !q.infinity ==> ret.coeffs@.len() == NCOEFF()",
                   vis='pub', body_edit=fa_edit, sig_edit=lambda sg: sg.replace('Self', 'G2Prepared'), rename='g2prepared_from_affine', attrs='#[verifier::exec_allows_no_decreases_clause]\n')
    u.add("\n".join(STUBS))
    u.add(fa)
    u.close = "} // mod code\n"
    return u


# ---------------------------------------------------------------------------------------------------------------------------- ghost text
PROOFS = r"""
pub type PairE<'a> = (&'a G1Prepared, SliceIter<'a, Coeff>);
// the working list against the (ghost) list of kept pairs: same points, same coefficient lists, positions k+1 for the first jj entries and k for the rest
pub open spec fn pass_inv(pairs: Seq<PairE>, pv: Seq<PairR>, jj: int, k: nat) -> bool {
    pairs.len() == pv.len() && 0 <= jj <= pv.len()
    && forall|j: int| 0 <= j < pv.len() ==> (#[trigger] pairs[j]).0 == pv[j].0 && pairs[j].1.s@ == pv[j].1.coeffs@ && pairs[j].1.pos == (if j < jj { k + 1 } else { k })
}
pub proof fn lemma_pow2_pos(n: nat) ensures pow2(n) > 0 decreases n { if n > 0 { lemma_pow2_pos((n - 1) as nat); } }
// the prefix of v with one more bit
pub proof fn lemma_prefix(v: nat, n: nat) requires n >= 1
    ensures (v / pow2((n - 1) as nat)) / 2 == v / pow2(n), v / pow2((n - 1) as nat) == 2 * (v / pow2(n)) + (v / pow2((n - 1) as nat)) % 2
{
    lemma_pow2_pos((n - 1) as nat);
    lemma_div_denominator(v as int, pow2((n - 1) as nat) as int, 2);
    assert(pow2(n) == 2 * pow2((n - 1) as nat));
    assert(pow2((n - 1) as nat) * 2 == pow2(n));
    lemma_fundamental_div_mod((v / pow2((n - 1) as nat)) as int, 2);
}
pub proof fn lemma_kidx_chain(v: nat, n: nat) ensures kidx(v / pow2(n)) <= kidx(v) decreases n
{
    if n == 0 { assert(pow2(0) == 1); } else { lemma_kidx_chain(v, (n - 1) as nat); lemma_prefix(v, n); lemma_kidx_mono(v / pow2((n - 1) as nat)); }
}
pub proof fn lemma_pow2_64() ensures pow2(64) == 0x1_0000_0000_0000_0000 { assert(pow2(64) == 0x1_0000_0000_0000_0000) by(compute); }
pub proof fn lemma_stv_low(pv: Seq<PairR>) ensures stv(pv, 0) =~= stv(pv, 1) {}
pub proof fn lemma_stv_ones(pv: Seq<PairR>) ensures sprod(stv(pv, 0)) == f12one() decreases pv.len()
{
    if pv.len() == 0 { assert(stv(pv, 0).len() == 0); }
    else { lemma_stv_ones(pv.drop_last()); assert(stv(pv, 0).drop_last() =~= stv(pv.drop_last(), 0)); ax_f12conj_one(); ax_f12mul_one(f12one()); }
}
"""

FILT_INV = ("        invariant k_ <= i@.len(), wf_pairs(i@), pass_inv(pairs@, filt(i@.take(k_ as int)), 0, 0)\n"
            "        decreases i@.len() - k_")
FILT_PRE = ("proof { assert(i@.take(k_ as int + 1).drop_last() =~= i@.take(k_ as int)); assert(i@.take(k_ as int + 1).last() == i@[k_ as int]); } "
            "let ghost pairs0 = pairs@;")
FILT_POST = ("proof { let t0 = filt(i@.take(k_ as int)); let t1 = filt(i@.take(k_ as int + 1)); "
             "if skipped(*i@[k_ as int].0, *i@[k_ as int].1) { assert(t1 == t0); assert(pairs@ == pairs0); } "
             "else { assert(t1 == t0.push(i@[k_ as int])); assert(pairs@ =~= pairs0.push(pairs@.last())); "
             "assert forall|j: int| 0 <= j < t1.len() implies (#[trigger] pairs@[j]).0 == t1[j].0 && pairs@[j].1.s@ == t1[j].1.coeffs@ && pairs@[j].1.pos == 0 by { if j < t0.len() { assert(pairs@[j] == pairs0[j]); } } } }")
FILT_AFTER = ("let ghost pv = filt(i@); proof { assert(i@.take(i@.len() as int) =~= i@); lemma_filt_props(i@); lemma_kidx_x(); lemma_stv_ones(pv); } "
              "let ghost mut ga: Seq<F12> = stv(pv, 0); let ghost mut gk: nat = 0;")

# one pass over the pairs: f.v() == sprod(ga) before, pairs at position gk; afterwards ga' = ga .* lines(gk), position gk + 1
PASS_BEFORE = "let ghost f0 = f.v(); let ghost lv = linv(pv, gk as int); proof { assert(lv.take(0).len() == 0); lemma_sprod_in(ga); ax_f12mul_one(f0); }"
PASS_INV = ("        invariant j_ <= pairs@.len(), pass_inv(pairs@, pv, j_ as int, gk), gk < NCOEFF(), wf_pairs(pv), lv == linv(pv, gk as int), f0 == sprod(ga), ga.len() == pv.len(),\n"
            "            forall|j: int| 0 <= j < pv.len() ==> !skipped(*(#[trigger] pv[j]).0, *pv[j].1),\n"
            "            f.v() == f12mul(f0, sprod(lv.take(j_ as int)))\n"
            "        decreases pairs@.len() - j_")
PASS_PRE = ("let ghost fb = f.v(); let ghost pairs0 = pairs@; proof { assert(pairs0[j_ as int].1.pos == gk); assert(!skipped(*pv[j_ as int].0, *pv[j_ as int].1)); "
            "assert(pv[j_ as int].1.coeffs@.len() == NCOEFF()); }")
PASS_POST = ("proof { let l = lv[j_ as int]; assert(f.v() == f12mul(fb, l)); lemma_sprod_take(lv, j_ as int); ax_f12mul_assoc(f0, sprod(lv.take(j_ as int)), l); "
             "assert forall|j: int| 0 <= j < pv.len() implies (#[trigger] pairs@[j]).0 == pv[j].0 && pairs@[j].1.s@ == pv[j].1.coeffs@ && pairs@[j].1.pos == (if j < j_ + 1 { gk + 1 } else { gk }) by { if j != j_ as int { assert(pairs@[j] == pairs0[j]); } } }")
PASS_AFTER = ("proof { assert(lv.take(pairs@.len() as int) =~= lv); lemma_sprod_mul(ga, lv); ga = mulv(ga, lv); gk = gk + 1; assert(pass_inv(pairs@, pv, 0, gk)); }")

BITS_BEFORE = ("proof { assert(BLS_X >> 1 == 0x6900800000008000u64) by(compute); lemma_pow2_64(); assert({it}.val() == XH()); "
               "assert(XH() / pow2(64) == 0) by { lemma_basic_div(XH() as int, pow2(64) as int); } }")
BITS_INV = ("        invariant {it}.n <= 64, {it}.val() == XH(), wf_pairs(pv), ga.len() == pv.len(), kidx(XH()) == 67,\n"
            "            forall|j: int| 0 <= j < pv.len() ==> !skipped(*(#[trigger] pv[j]).0, *pv[j].1),\n"
            "            found_one == (XH() / pow2({it}.n as nat) >= 1), ga == stv(pv, XH() / pow2({it}.n as nat)), gk == kidx(XH() / pow2({it}.n as nat)),\n"
            "            f.v() == sprod(ga), pass_inv(pairs@, pv, 0, gk)\n"
            "        ensures {it}.n == 0\n        decreases {it}.n")
ARM_HEAD = ("let ghost vv: nat = XH() / pow2((it1.n + 1) as nat); let ghost v2: nat = XH() / pow2(it1.n as nat); "
            "proof { lemma_prefix(XH(), (it1.n + 1) as nat); assert(v2 == 2 * vv + (if i { 1nat } else { 0nat })); lemma_kidx_chain(XH(), it1.n as nat); if vv >= 1 { lemma_st_step(pv, vv, i); } } ")
SKIP_GHOST = "proof { lemma_stv_low(pv); assert(vv == 0); assert(kidx(v2) == 0); assert(stv(pv, v2) =~= stv(pv, 0)); }"
SQUARE_GHOST = ("proof { lemma_st_step(pv, vv, i); lemma_sprod_mul(ga, ga); ga = mulv(ga, ga); assert(ga =~= stv(pv, v2)); }")
BITS_ARM = ""
BITS_AFTER = "proof { assert(pow2(0) == 1); assert(XH() / 1 == XH()); }"
CONJ_GHOST = ("proof { lemma_sprod_conj(ga); assert(conjv(ga) =~= ml1v(pv)); lemma_filter(i@); }")

FA_INV = ("        invariant {it}.n <= 64, {it}.val() == XH(), kidx(XH()) == 67, found_one == (XH() / pow2({it}.n as nat) >= 1), coeffs@.len() == kidx(XH() / pow2({it}.n as nat))\n"
          "        ensures {it}.n == 0\n        decreases {it}.n")
FA_HEAD = ("let ghost vv: nat = XH() / pow2((it1.n + 1) as nat); let ghost v2: nat = XH() / pow2(it1.n as nat); "
           "proof { lemma_prefix(XH(), (it1.n + 1) as nat); assert(v2 == 2 * vv + (if i { 1nat } else { 0nat })); if vv >= 1 { lemma_kidx_step(vv, i); } } ")
