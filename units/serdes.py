"""Unit `serdes`: stream deserialization of points (C19, reading side): consumption, flag check, validation by the
checked decoders, error-not-value."""
import re
from vx.unit import Unit, spec_text
from vx import weave
from units.cofactor import env_text


def build(src, workdir):
    u = Unit('serdes', src)
    env_text(u)
    u.add(spec_text('bits.vrs'))
    u.add(spec_text('affine.vrs'))
    u.add(u.real_item('', 'enum', r'enum GroupDecodingError\b'))
    for mod, nm in (('g1', 'G1Uncompressed'), ('g1', 'G1Compressed'), ('g2', 'G2Uncompressed'), ('g2', 'G2Compressed')):
        t = u.real_item(mod, 'struct', r'struct ' + nm + r'\b')
        u.add(t.replace('([u8;', '(pub [u8;'))
    u.add(spec_text('codec.vrs'))
    u.add(spec_text('serdes.vrs'))
    for g, mod, n, aff, (cs, us) in (('G1', 'g1', '1', 'G1Affine', (48, 96)), ('G2', 'g2', '2', 'G2Affine', (96, 192))):
        for enc, k in ((f'{g}Compressed', 'c'), (f'{g}Uncompressed', 'u')):
            u.add(f"impl {enc} {{")
            u.add(u.real_fn(mod, f'impl EncodedPoint for {enc}', 'empty', f"    ensures ret.0@.len() == {cs if k == 'c' else us}", vis='pub'))
            u.add(u.real_fn(mod, f'impl EncodedPoint for {enc}', 'size', f"    ensures ret == {cs if k == 'c' else us}", vis='pub'))
            u.add(f"""    // the checked decoder: contract proved for the real body in unit `codec`
    #[verifier::external_body]
    pub fn into_affine(&self) -> (ret: core::result::Result<{aff}, GroupDecodingError>) ensures rview{n}(ret) == chk_{k}{n}(dec_{k}{n}(self.0@)) {{ unimplemented!() }}
    #[verifier::external_body]
    pub fn into_affine_unchecked(&self) -> (ret: core::result::Result<{aff}, GroupDecodingError>) ensures rview{n}(ret) == dec_{k}{n}(self.0@) {{ unimplemented!() }}
}}""")
        u.add(f"""impl {aff} {{
    #[verifier::external_body]
    pub fn into_projective(&self) -> (ret: {g}) ensures ret.pt() == self.pt() {{ unimplemented!() }}
}}""")

        def edit(body, us=us):
            n1 = len(re.findall(r'::alloc::vec::from_elem\(', body))
            body = body.replace('::alloc::vec::from_elem(', 'vec_from_elem(')
            n2 = len(re.findall(r'g_buf\.as_mut\(\)\.copy_from_slice\(&buf\)', body))
            body = body.replace('g_buf.as_mut().copy_from_slice(&buf)', 'copy_into(&mut g_buf.0, &buf)')
            u.rewrites['R5v'] = u.rewrites.get('R5v', 0) + n1
            u.rewrites['R5c'] = u.rewrites.get('R5c', 0) + n2
            body = body.replace('buf.append(&mut buf2);', f'buf.append(&mut buf2); proof {{ assert(buf@ =~= s0.subrange(0, {us})); assert(reader.stream() =~= s0.subrange({us}, s0.len() as int)); }}')
            return body.replace('{', '{ let ghost s0 = reader.stream();', 1)
        if g == 'G1':
            u.add("pub open spec fn s0r<R: Read>(r: &R) -> Seq<u8> { r.stream() }")
        for ty in (g, aff):
            def val(kind, size):
                d = f"chk_{kind}{n}(dec_{kind}{n}(s0r(old(reader)).subrange(0, {size})))"
                if ty == aff:
                    return f"{d} == Ok::<A{n}, DecErr>(ret.unwrap().a())"
                ptf = "aff1(p.x, p.y, p.inf)" if n == '1' else "aff2(p.x.c0, p.x.c1, p.y.c0, p.y.c1, p.inf)"
                return f"(match {d} {{ Ok(p) => ret.unwrap().pt() == {ptf}, Err(_) => false }})"
            post = f"""    ensures
        // success: exactly the encoding was consumed and the value is what the checked decoder returns for those bytes
        ret.is_ok() && compressed ==> s0r(old(reader)).len() >= {cs} && final(reader).stream() == s0r(old(reader)).subrange({cs}, s0r(old(reader)).len() as int) && {val('c', cs)},
        ret.is_ok() && !compressed ==> s0r(old(reader)).len() >= {us} && final(reader).stream() == s0r(old(reader)).subrange({us}, s0r(old(reader)).len() as int) && {val('u', us)},
        // truncated input, a form flag contradicting `compressed`, or an encoding the checked decoder rejects never yields a value
        compressed && (s0r(old(reader)).len() < {cs} || (s0r(old(reader)).len() >= {cs} && chk_c{n}(dec_c{n}(s0r(old(reader)).subrange(0, {cs}))).is_err())) ==> ret.is_err(),
        !compressed && (s0r(old(reader)).len() < {us} || (s0r(old(reader)).len() >= {us} && chk_u{n}(dec_u{n}(s0r(old(reader)).subrange(0, {us}))).is_err())) ==> ret.is_err(),"""
            t = u.real_fn('serdes', f'impl SerDes for {ty}', 'deserialize', post, body_edit=edit, subst=(('Result<', 'IoResult<'),))
            t = re.sub(r'fn deserialize<', f'pub fn deserialize_{ty.lower()}<', t, count=1).replace('IoResult<Self>', f'IoResult<{ty}>')
            u.add(t)
    u.close = "} // mod code\n"
    return u
