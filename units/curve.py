"""Unit `curve`: the point formulas of curve_impl! (instantiated for G1 over Fq and G2 over Fq2) against the
chord-and-tangent law in cleared-denominator form (specs/curve_rel.vrs.tmpl) - C01."""
import re
from vx.unit import Unit, spec_text
from vx import ringjob
from units.tower import tower_env, TYPES as TOWER_TYPES

GROUPS = {
    'G1': dict(mod='g1', aff='G1Affine', B='Fq', J='J1', A='A1', p='j1', T='int', ops=dict(mul='fmul', add='fadd', sub='fsub', sq='fsq', dbl='fdbl', neg='fneg',
               zero='fzero', one='fone', **{'in': 'fin'}), fields=None),
    'G2': dict(mod='g2', aff='G2Affine', B='Fq2', J='J2', A='A2', p='j2', T='F2', ops=dict(mul='f2mul', add='f2add', sub='f2sub', sq='f2sq', dbl='f2dbl', neg='f2neg',
               zero='f2zero', one='f2one', **{'in': 'f2in'})),
}


def rel_spec(g):
    t = spec_text('curve_rel.vrs.tmpl')
    G = GROUPS[g]
    for k, v in dict(J=G['J'], T=G['T'], p=G['p'], **G['ops']).items():
        t = t.replace('{' + k + '}', v)
    return t


def fn(ty, impl, name, **kw):
    d = dict(ty=ty, impl=impl, name=name, args=kw.pop('args', ''), upd=None, ret=None, rty=None, ring=kw.pop('ring', True), raw=kw.pop('raw', None),
             run=kw.pop('run', None), place=kw.pop('place', None), fresh_actuals=kw.pop('fresh_actuals', None), symx_impl=kw.pop('symx_impl', None),
             nosymx=kw.pop('nosymx', False), kw=kw)
    return d


TRANSFER = ("G2 is the second instantiation of the curve_impl! macro text proved for G1: its ring identities are the same integer polynomial "
            "identities read in the commutative ring Fq2 (T1); the instantiation texts are compared mechanically on every run")


def group_fns(g):
    G = GROUPS[g]
    tr = dict(transfer=TRANSFER) if g == 'G2' else {}
    p, J, B, aff = G['p'], G['J'], G['B'], G['aff']
    o = G['ops']
    P = f'impl CurveProjective for {g}'
    L = []
    L.append(fn(g, P, 'is_zero', args='&self', ring=False, raw=f"    ensures ret == (self.v().z == {o['zero']}())",
                symx_impl=f"  pub fn is_zero(&self) -> bool {{ self.z.is_zero() }}"))
    L.append(fn(g, P, 'zero', ring=False, raw=f"    ensures ret.v().z == {o['zero']}()", nosymx=True))
    L.append(fn(g, P, 'is_normalized', args='&self', ring=False,
                raw=f"    ensures ret == (self.v().z == {o['zero']}() || self.v().z == {o['one']}())", nosymx=True))
    L.append(fn(g, P, 'negate', args='&mut self', ring=False, raw=f"    ensures final(self).v() == {p}neg_of(old(self).v())", nosymx=True))
    # ---- double
    dbl_run = dict(
        tag='"dbl"',
        code=f'{{ let p = s0.v(); let r = s.v(); let l = {p}three({o["sq"]}(p.x)); let mut c = flat_vec(&{p}dbl_t_l(p, r, l)); c.extend(flat_vec(&{p}dbl_x_l(p, r, l))); '
             f'c.extend(flat_vec(&{p}law_y_l(p, r, l))); c.extend(flat_vec(&r.z)); syms_json(&c) }}',
        spec=f'{{ let p = s0.v(); let r = s.v(); let l = {p}three({o["sq"]}(p.x)); let mut c = flat_vec(&{p}dbl_t_r(p, r, l)); c.extend(flat_vec(&{p}dbl_x_r(p, r, l))); '
             f'c.extend(flat_vec(&{p}law_y_r(p, r, l))); c.extend(flat_vec(&{o["mul"]}({o["dbl"]}(p.y), p.z))); syms_json(&c) }}',
    )
    dbl_ghost = (f"proof {{ {g}::lemma_in(&*old(self)); if old(self).v().z != {o['zero']}() {{ {p}ax_2yz(old(self).v().y, old(self).v().z); "
                 f"assert({p}dbl_rel(old(self).v(), self.v(), {p}three({o['sq']}(old(self).v().x)))); }} }}")
    L.append(fn(g, P, 'double', args='&mut self', raw=f"    ensures {p}is_double_of(old(self).v(), final(self).v())",
                run=dbl_run, post_ghost=dbl_ghost, **tr,
                symx_impl=f"  pub fn double(&mut self) {{ note(\"dbl\"); *self = {g}::fresh(&fresh_name(\"dblres\")); }}"))
    # ---- add_assign
    def add_run(q_expr, ci):
        pre = (f'let p = s0.v(); let q = {q_expr}; let r = s.v(); '
               f'let u1 = {o["mul"]}(p.x, {o["sq"]}(q.z)); let u2 = {o["mul"]}(q.x, {o["sq"]}(p.z)); '
               f'let s1 = {o["mul"]}(p.y, {p}cube(q.z)); let s2 = {o["mul"]}(q.y, {p}cube(p.z)); let l = {o["dbl"]}({o["sub"]}(s2, s1)); ')
        return dict(
            tag=f'if has_note("dbl") {{ "dbl" }} else if cond_count() < {ci + 1} {{ "triv" }} else {{ "gen" }}',
            code='{ ' + pre + f'let mut c: Vec<Sym> = vec![]; if cond_count() >= {ci + 1} {{ let (a, b) = cond_sides({ci}); c.extend(a); c.extend(b); '
                 f'if cond_count() >= {ci + 2} {{ let (a, b) = cond_sides({ci + 1}); c.extend(a); c.extend(b); }} }} '
                 f'if !has_note("dbl") && cond_count() >= {ci + 1} {{ c.extend(flat_vec(&{p}add_c_l(p, q, r, l))); c.extend(flat_vec(&{p}add_x_l(p, q, r, l))); '
                 f'c.extend(flat_vec(&{p}law_y_l(p, r, l))); c.extend(flat_vec(&r.z)); }} syms_json(&c) }}',
            spec='{ ' + pre + f'let mut c: Vec<Sym> = vec![]; if cond_count() >= {ci + 1} {{ c.extend(flat_vec(&u1)); c.extend(flat_vec(&u2)); '
                 f'if cond_count() >= {ci + 2} {{ c.extend(flat_vec(&s1)); c.extend(flat_vec(&s2)); }} }} '
                 f'if !has_note("dbl") && cond_count() >= {ci + 1} {{ c.extend(flat_vec(&{p}add_c_r(p, q, r, l))); c.extend(flat_vec(&{p}add_x_r(p, q, r, l))); '
                 f'c.extend(flat_vec(&{p}law_y_r(p, r, l))); c.extend(flat_vec(&{o["mul"]}({o["mul"]}({o["dbl"]}(p.z), q.z), {o["sub"]}(u2, u1)))); }} syms_json(&c) }}',
        )

    def add_ghost(qv):
        return (f"proof {{ {g}::lemma_in(&*old(self)); {'G' + g[1] + 'Affine' if 'jv' in qv else g}::lemma_in(other); let p = old(self).v(); let q = {qv}; "
                f"if p.z != {o['zero']}() && q.z != {o['zero']}() {{ "
                f"let u1 = {o['mul']}(p.x, {o['sq']}(q.z)); let u2 = {o['mul']}(q.x, {o['sq']}(p.z)); "
                f"let s1 = {o['mul']}(p.y, {p}cube(q.z)); let s2 = {o['mul']}(q.y, {p}cube(p.z)); "
                f"{p}ax_2zzh(p.z, q.z, u1, u2); "
                f"if !({p}same_x(p, q) && {p}same_y(p, q)) {{ assert({p}add_rel(p, q, self.v(), {o['dbl']}({o['sub']}(s2, s1)))); }} }} }}")
    L.append(fn(g, P, 'add_assign', args='&mut self, other: &Self',
                raw=f"    ensures {p}is_sum_of(old(self).v(), other.v(), final(self).v())",
                run=add_run('other.v()', 2), post_ghost=add_ghost('other.v()'), nosymx=True, **tr))
    L.append(fn(g, P, 'add_assign_mixed', args=f'&mut self, other: &{aff}',
                raw=f"    ensures {p}is_sum_of(old(self).v(), other.jv(), final(self).v())",
                run=add_run('other.jv()', 1), post_ghost=add_ghost('other.jv()'), nosymx=True, subst=(('Self::Affine', aff),), **tr))

    # ---- PartialEq::eq : equality of the points denoted, for any representatives
    eq_run = dict(
        tag='"eq"',
        code='{ let mut c: Vec<Sym> = vec![]; for i in 2..cond_count().min(4) { let (a, b) = cond_sides(i); c.extend(a); c.extend(b); } syms_json(&c) }',
        spec=f'{{ let p = s0.v(); let q = other.v(); let mut c: Vec<Sym> = vec![]; if cond_count() >= 3 {{ c.extend(flat_vec(&{o["mul"]}(p.x, {o["sq"]}(q.z)))); c.extend(flat_vec(&{o["mul"]}(q.x, {o["sq"]}(p.z)))); }} '
             f'if cond_count() >= 4 {{ c.extend(flat_vec(&{o["mul"]}(q.y, {p}cube(p.z)))); c.extend(flat_vec(&{o["mul"]}(p.y, {p}cube(q.z)))); }} syms_json(&c) }}',
    )
    wrap = (f"""impl vstd::std_specs::cmp::PartialEqSpecImpl for {g} {{
    open spec fn obeys_eq_spec() -> bool {{ true }}
    open spec fn eq_spec(&self, other: &{g}) -> bool {{ {p}same_point(self.v(), other.v()) }}
}}
impl PartialEq for {g} {{""", "}")
    L.append(fn(g, f'impl PartialEq for {g}', 'eq', args=f'&self, other: &{g}', raw=f"    ensures ret == {p}same_point(self.v(), other.v())",
                run=eq_run, wrap=wrap, nosymx=True, **tr))
    # ---- conversions
    L.append(fn(g, f'impl From<{aff}> for {g}', 'from', args=f'p: {aff}', ring=False, nosymx=True,
                raw=f"    ensures p.infinity ==> ret.v().z == {o['zero']}(), !p.infinity ==> ret.v() == p.jv()"))
    aff_run = dict(
        tag='if cond_taken(1) { "norm" } else { "aff" }',
        code=f'{{ let mut c: Vec<Sym> = vec![]; if !r.infinity {{ c.extend(flat_vec(&{o["mul"]}(r.x.v(), {o["sq"]}(p.v().z)))); c.extend(flat_vec(&{o["mul"]}(r.y.v(), {p}cube(p.v().z)))); }} syms_json(&c) }}',
        spec=f'{{ let mut c: Vec<Sym> = vec![]; if !r.infinity {{ c.extend(flat_vec(&p.v().x)); c.extend(flat_vec(&p.v().y)); }} syms_json(&c) }}',
    )
    L.append(fn(aff, f'impl From<{g}> for {aff}', 'from', args=f'p: {g}', run=aff_run, nosymx=True, fresh_actuals={'inv': 'zinv'},
                raw=f"    ensures {p}is_affine_of(p.v(), ret.x.v(), ret.y.v(), ret.infinity)",
                place={'aff': (aff + r' \{ x, y, infinity: false \}', 'before'),
                       'norm': (aff + r' \{ x: p\.x, y: p\.y, infinity: false \}', 'before')}, **tr))
    L.append(fn(g, P, 'into_affine', args='&self', ring=False, nosymx=True, subst=(('(*self).into()', f'{aff}::from(*self)'),),
                raw=f"    ensures {p}is_affine_of(self.v(), ret.x.v(), ret.y.v(), ret.infinity)"))
    A_ = f'impl CurveAffine for {aff}'
    L.append(fn(aff, A_, 'zero', ring=False, nosymx=True, raw="    ensures ret.infinity"))
    L.append(fn(aff, A_, 'is_zero', args='&self', ring=False, nosymx=True, raw="    ensures ret == self.infinity"))
    L.append(fn(aff, A_, 'negate', args='&mut self', ring=False, nosymx=True, raw=f"    ensures final(self).jv() == {p}neg_of(old(self).jv())"))
    L.append(fn(aff, A_, 'into_projective', args='&self', ring=False, nosymx=True, subst=(('(*self).into()', f'{g}::from(*self)'),),
                raw=f"    ensures self.infinity ==> ret.v().z == {o['zero']}(), !self.infinity ==> ret.v() == self.jv()"))
    # ---- trait defaults of CurveProjective instantiated at this type (R6)
    L.append(fn(g, 're:^pub trait CurveProjective\\b', 'sub_assign',
                args='&mut self, other: &Self', ring=False, nosymx=True, modkey='',
                raw=f"    ensures {p}is_sum_of(old(self).v(), {p}neg_of(other.v()), final(self).v())"))
    L.append(fn(g, 're:^pub trait CurveProjective\\b', 'sub_assign_mixed',
                args=f'&mut self, other: &{aff}', ring=False, nosymx=True, modkey='', subst=(('Self::Affine', aff),),
                raw=f"    ensures {p}is_sum_of(old(self).v(), {p}neg_of(other.jv()), final(self).v())"))
    return L



def symx_group(g):
    G = GROUPS[g]
    B, J, aff, p, o = G['B'], G['J'], G['aff'], G['p'], G['ops']
    return f"""
#[derive(Clone, Copy, Debug)] pub struct {g} {{ pub x: {B}, pub y: {B}, pub z: {B} }}
#[derive(Clone, Copy, Debug)] pub struct {aff} {{ pub x: {B}, pub y: {B}, pub infinity: bool }}
impl {g} {{
    pub fn v(&self) -> {J} {{ {J} {{ x: self.x.v(), y: self.y.v(), z: self.z.v() }} }}
    pub fn fresh(p: &str) -> {g} {{ {g} {{ x: {B}::fresh(&format!("{{}}__x", p)), y: {B}::fresh(&format!("{{}}__y", p)), z: {B}::fresh(&format!("{{}}__z", p)) }} }}
}}
impl {aff} {{
    pub fn jv(&self) -> {J} {{ {J} {{ x: self.x.v(), y: self.y.v(), z: if self.infinity {{ {o['zero']}() }} else {{ {o['one']}() }} }} }}
    pub fn fresh(p: &str) -> {aff} {{ {aff} {{ x: {B}::fresh(&format!("{{}}__x", p)), y: {B}::fresh(&format!("{{}}__y", p)), infinity: false }} }}
    pub fn is_zero(&self) -> bool {{ self.infinity }}
    pub fn zero() -> {aff} {{ {aff} {{ x: {B}::zero(), y: {B}::one(), infinity: true }} }}
}}
impl Flat for {J} {{ fn flat(&self, out: &mut Vec<Sym>) {{ self.x.flat(out); self.y.flat(out); self.z.flat(out); }} }}
"""


def verus_group(u, g):
    G = GROUPS[g]
    B, J, aff, p, o, T = G['B'], G['J'], G['aff'], G['p'], G['ops'], G['T']
    for name in (aff, g):
        t = u.real_item(G['mod'], 'struct', r'struct ' + name + r'\b', derive='Clone, Copy')
        u.add(re.sub(r'pub\((super|crate)\)', 'pub', t))
    inl = ("ax_fq_range(x.x); ax_fq_range(x.y); ax_fq_range(x.z);" if B == 'Fq' else "lemma_f2in(&x.x); lemma_f2in(&x.y); lemma_f2in(&x.z);")
    ina = ("ax_fq_range(x.x); ax_fq_range(x.y);" if B == 'Fq' else "lemma_f2in(&x.x); lemma_f2in(&x.y);")
    u.add(f"""impl {g} {{
    pub open spec fn v(&self) -> {J} {{ {J} {{ x: self.x.v(), y: self.y.v(), z: self.z.v() }} }}
    pub proof fn lemma_in(x: &{g}) ensures {o['in']}(x.v().x), {o['in']}(x.v().y), {o['in']}(x.v().z) {{ {inl} }}
}}
impl {aff} {{
    pub open spec fn jv(&self) -> {J} {{ {J} {{ x: self.x.v(), y: self.y.v(), z: if self.infinity {{ {o['zero']}() }} else {{ {o['one']}() }} }} }}
    pub proof fn lemma_in(x: &{aff}) ensures {o['in']}(x.jv().x), {o['in']}(x.jv().y), {o['in']}(x.jv().z) {{ {ina} ax_q_pos(); }}
}}""")


def build(src, workdir, groups=('G1', 'G2')):
    u = Unit('curve', src)
    tower_env(u, symx=True)
    u.add("pub open spec fn fsq(a: int) -> int { fmul(a, a) }")
    u.symx_parts.append("pub fn fsq(a: Sym) -> Sym { fmul(a, a) }")
    u.lemma_prelude = spec_text('base.vrs') + ringjob.ARITH_LEMMAS
    types = dict(TOWER_TYPES)
    fns = []
    # symx: contract-level Fq2 (schoolbook spec implementations of the tower functions the formulas use)
    from units.tower import FNS as TOWER_FNS
    rj = ringjob.RingJobs(u, types, workdir)
    sx = ["#[derive(Clone, Copy, Debug)] pub struct Fq2 { pub c0: Fq, pub c1: Fq }",
          "impl Fq2 { pub fn v(&self) -> F2 { F2 { c0: self.c0.v(), c1: self.c1.v() } } pub fn from_v(x: F2) -> Fq2 { Fq2 { c0: Fq::from_v(x.c0), c1: Fq::from_v(x.c1) } } "
          "pub fn set_v(&mut self, x: F2) { *self = Fq2::from_v(x); } pub fn fresh(p: &str) -> Fq2 { Fq2 { c0: Fq::fresh(&format!(\"{}__c0\", p)), c1: Fq::fresh(&format!(\"{}__c1\", p)) } } }",
          "impl Flat for F2 { fn flat(&self, out: &mut Vec<Sym>) { self.c0.flat(out); self.c1.flat(out); } }",
          "impl Flat for Fq2 { fn flat(&self, out: &mut Vec<Sym>) { self.v().flat(out); } }",
          "impl IsZeroSym for F2 { fn zero_eqs(&self) -> Vec<(Sym, Sym)> { vec![(self.c0, fzero()), (self.c1, fzero())] } }",
          "impl PartialEq for F2 { fn eq(&self, o: &F2) -> bool { decide(\"eq\", vec![(self.c0, o.c0), (self.c1, o.c1)]) } }",
          "impl PartialEq for Fq2 { fn eq(&self, o: &Fq2) -> bool { self.v() == o.v() } }",
          "impl Fq2 {"]
    for f in TOWER_FNS:
        if f['ty'] == 'Fq2' and not f.get('nosymx'):
            si = f.get('symx_impl') or rj.symx_spec_impl(f)
            if si:
                sx.append(si)
    sx.append("}")
    u.symx_parts.append("\n".join(sx))
    for g in groups:
        G = GROUPS[g]
        u.add(rel_spec(g))
        u.symx_parts.append(ringjob_spec_to_rust(rel_spec(g)))
        u.symx_parts.append(symx_group(g))
        verus_group(u, g)
        types[g] = dict(view=G['J'], fields=[('x', G['B']), ('y', G['B']), ('z', G['B'])], mod=G['mod'])
        types[G['aff']] = dict(view=G['A'], fields=[('x', G['B']), ('y', G['B'])], mod=G['mod'])
        for f in group_fns(g):
            rj.add_fn(f)
    # T1 precondition: the two instantiations of curve_impl! must be the same text up to the type names
    if 'G1' in groups and 'G2' in groups:
        f1 = {(f['impl'].replace('G1', 'G#'), f['name']): f for f in group_fns('G1')}
        for f in group_fns('G2'):
            k = (f['impl'].replace('G2', 'G#'), f['name'])
            a = f1.get(k)
            if a is None:
                continue
            t1 = ' '.join(u.slice_fn(a['kw'].get('modkey', types[a['ty']]['mod']), a['impl'], a['name']))
            t2 = ' '.join(u.slice_fn(f['kw'].get('modkey', types[f['ty']]['mod']), f['impl'], f['name']))
            n1 = re.sub(r'\s+', ' ', t1)
            n2 = re.sub(r'\s+', ' ', t2.replace('G2', 'G1').replace('Fq2', 'Fq'))
            if n1 != n2:
                from vx.weave import Unsupported
                raise Unsupported(f"transfer T1 void: the G1 and G2 instantiations of {f['name']} differ textually")
        u.notes.append("T1 text equality of the G1/G2 instantiations checked for %d functions" % len(f1))
    rj.finish()
    return u


def ringjob_spec_to_rust(text):
    """the relation specs contain `exists` (not executable): keep only the quantifier-free functions for symx"""
    from vx.unit import verus_to_rust_spec
    out = []
    for m in re.finditer(r'(?:^//[^\n]*\n)*^pub (?:open spec fn|struct)[^\n]*\{.*?^\}|^pub (?:open spec fn|struct)[^\n]*\}$', text, re.S | re.M):
        t = m.group(0)
        if 'exists' in t or 'proof fn' in t:
            continue
        out.append(t)
    return verus_to_rust_spec("\n".join(out))
