"""Unit `encode`: point encoders (C05) - real bodies of EncodedPoint::from_affine / empty for the four encodings against the
wire format written from the property statement, plus the round-trip and non-malleability lemmas against the decoding functions of C04."""
import re
from vx.unit import Unit, spec_text
from vx import weave
from units.cofactor import env_text

BV = ("proof { assert((1u8 << 7) == 0x80u8) by(bit_vector); assert((1u8 << 6) == 0x40u8) by(bit_vector); assert((1u8 << 5) == 0x20u8) by(bit_vector); "
      "assert(0u8 | 0x40u8 == 0x40u8) by(bit_vector); assert(0x40u8 | 0x80u8 == 0xc0u8) by(bit_vector); }")


def check_side_conditions():
    """numeric / textual side conditions of the axioms of specs/encode.vrs, re-checked on every run"""
    from vx.refute import F1, F2, Q
    from vx.rs import AnchorLost
    # A-ODD: no point with y = 0, i.e. -b is not a cube: (-4)^((q-1)/3) != 1 in Fq, (-(4+4u))^((q^2-1)/3) != 1 in Fq2
    assert Q % 3 == 1
    if pow((-4) % Q, (Q - 1) // 3, Q) == 1:
        raise AnchorLost('A-ODD: -4 is a cube in Fq')
    def f2pow(a, e):
        r = (1, 0)
        while e:
            if e & 1: r = F2.mul(r, a)
            a = F2.mul(a, a); e >>= 1
        return r
    if f2pow(((-4) % Q, (-4) % Q), (Q * Q - 1) // 3) == (1, 0):
        raise AnchorLost('A-ODD: -4(1+u) is a cube in Fq2')
    # ax_gpfx1/2 restate the postcondition that unit recover proves for the real get_point_from_x
    rec = open(__file__.replace('encode.py', 'recover.py')).read()
    for frag in ("Some(p) => p.x.v() == x.v() && !p.infinity && a{n}_on_curve(p.a())",
                 "({cmpf}(p.y.v(), {neg}(p.y.v())) != Ordering::Equal ==> (greatest == ({cmpf}(p.y.v(), {neg}(p.y.v())) == Ordering::Greater)))",
                 "None => !{issq}({rhs})"):
        if frag not in rec:
            raise AnchorLost('the contract of get_point_from_x in unit recover no longer has the form restated by ax_gpfx1 / ax_gpfx2')


def build(src, workdir):
    check_side_conditions()
    u = Unit('encode', src)
    env_text(u)
    u.add("use vstd::arithmetic::div_mod::*;")
    u.add(spec_text('bits.vrs'))
    for mod, nm in (('g1', 'G1Uncompressed'), ('g1', 'G1Compressed'), ('g2', 'G2Uncompressed'), ('g2', 'G2Compressed')):
        t = u.real_item(mod, 'struct', r'struct ' + nm + r'\b')
        u.add(t.replace('([u8;', '(pub [u8;'))
    u.add(spec_text('affine.vrs'))
    u.add(spec_text('order.vrs'))
    u.add(u.real_item('', 'enum', r'enum GroupDecodingError\b'))
    u.add(spec_text('codec.vrs'))
    u.add("""impl vstd::std_specs::cmp::PartialOrdSpecImpl for Fq2 {
    open spec fn obeys_partial_cmp_spec() -> bool { true }
    open spec fn partial_cmp_spec(&self, other: &Fq2) -> Option<Ordering> { Some(f2cmp(self.v(), other.v())) }
}
impl PartialOrd for Fq2 {
    // contract proved for the real body in unit `order`
    #[verifier::external_body]
    fn partial_cmp(&self, other: &Fq2) -> (r: Option<Ordering>) ensures r == Some(f2cmp(self.v(), other.v())) { unimplemented!() }
}""")
    u.add(spec_text('encode.vrs'))
    for aff in ('G1Affine', 'G2Affine'):
        u.add(f"impl {aff} {{")
        u.add(u.real_fn('g1' if aff == 'G1Affine' else 'g2', f're:impl\\s+CurveAffine\\s+for\\s+{aff}\\b', 'is_zero', "    ensures ret == self.infinity", ret='ret', vis='pub'))
        u.add("}")
    for enc, mod, n, k, aff, N in (('G1Uncompressed', 'g1', '1', 'u', 'G1Affine', 96), ('G1Compressed', 'g1', '1', 'c', 'G1Affine', 48),
                                   ('G2Uncompressed', 'g2', '2', 'u', 'G2Affine', 192), ('G2Compressed', 'g2', '2', 'c', 'G2Affine', 96)):
        u.add(f"impl {enc} {{")
        u.add(u.real_fn(mod, f'impl EncodedPoint for {enc}', 'empty', f"    ensures ret.0@ == zeros({N})", ret='ret', vis='pub'))

        def edit(b, n=n, k=k, N=N):
            b = b.replace('{', '{ ' + BV, 1)
            if k == 'c':
                first = 'affine.x.v()' if n == '1' else 'affine.x.v().c1'
                b = weave.insert_tail(b, f"""proof {{ let b0 = be48({first})[0];
                    assert((b0 | 0x20u8) | 0x80u8 == b0 | 0x80u8 | 0x20u8) by(bit_vector); assert(b0 | 0x80u8 == b0 | 0x80u8 | 0u8) by(bit_vector);
                    lemma_be_len({first} as nat, 48); }}""")
            return b
        u.add(u.real_fn(mod, f'impl EncodedPoint for {enc}', 'from_affine', f"    ensures ret.0@ == enc_{k}{n}(affine.a())", ret='ret', vis='pub', body_edit=edit))
        # the byte accessors of the encoding newtype: the slice handed out is the whole array (all N bytes, in order), and writes through as_mut land in it
        u.add(u.real_fn(mod, f're:impl\\s+AsRef<\\[u8\\]>\\s+for\\s+{enc}\\b', 'as_ref', f"    ensures ret@ == self.0@, ret@.len() == {N}", ret='ret', vis='pub'))
        u.add(u.real_fn(mod, f're:impl\\s+AsMut<\\[u8\\]>\\s+for\\s+{enc}\\b', 'as_mut', f"    ensures ret@ == old(self).0@, final(ret)@ == final(self).0@, ret@.len() == {N}", ret='ret', vis='pub'))
        u.add("}")
    # CurveAffine::into_compressed / into_uncompressed: trait defaults (lib.rs), written out at G1Affine / G2Affine (R6: Self::Compressed and the
    # `<T as EncodedPoint>::` path resolved at the instantiation)
    for g, n, aff in (('G1', '1', 'G1Affine'), ('G2', '2', 'G2Affine')):
        u.add(f"impl {aff} {{")
        for fn, enc, k in (('into_compressed', f'{g}Compressed', 'c'), ('into_uncompressed', f'{g}Uncompressed', 'u')):
            assoc = 'Compressed' if k == 'c' else 'Uncompressed'

            def sub(t, enc=enc, assoc=assoc):
                if f'<Self::{assoc} as EncodedPoint>::from_affine' not in t and f'Self::{assoc}' not in t:
                    raise weave.AnchorLost(f"{fn}: trait default no longer has the expected form")
                return t.replace(f'<Self::{assoc} as EncodedPoint>::from_affine', f'{enc}::from_affine').replace(f'Self::{assoc}', enc)
            u.add(u.real_fn('', 're:pub trait CurveAffine\\b', fn, f"    ensures ret.0@ == enc_{k}{n}(self.a())", ret='ret', vis='pub', sig_edit=sub, body_edit=sub))
            u.rewrites['R6'] = u.rewrites.get('R6', 0) + 2
        u.add("}")
    u.close = "} // mod code\n"
    return u
