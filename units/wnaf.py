"""Unit `wnaf`: windowed-NAF scalar multiplication (C02): window table, digit expansion, evaluation."""
import re
from vx.unit import Unit, spec_text
from vx import weave
from units.cofactor import env_text


def lit_i32(u, b):
    """R13: the range `0..(1 << e)` of wnaf_table has no other type constraint, rustc falls back to i32; the fallback is written
    out (Verus has no integer fallback).  Verus type-checks the annotated text, so a wrong annotation is rejected."""
    n = b.count('in 0..(1 << (window - 1))')
    if n != 1:
        raise AnchorLost('wnaf_table: range `0..(1 << (window - 1))` not found')
    u.rewrites['R13'] = u.rewrites.get('R13', 0) + 1
    return b.replace('in 0..(1 << (window - 1))', 'in 0i32..(1i32 << (window - 1))')


def deref_ops(u, b, v):
    """R14: arithmetic on a shared reference to a primitive (`n / 2`, `-n` with n: &i64) is std's forwarding impl of the operator
    on the value; written with the explicit dereference (Verus has no operator impls on references)."""
    n0 = len(re.findall(r'\(%s / 2\)|\(-%s\)' % (v, v), b))
    b = b.replace('(%s / 2)' % v, '(*%s / 2)' % v).replace('(-%s)' % v, '(-*%s)' % v)
    u.rewrites['R14'] = u.rewrites.get('R14', 0) + n0
    return b


def build(src, workdir):
    u = Unit('wnaf', src)
    env_text(u, with_points=False)
    u.add("use vstd::arithmetic::div_mod::*;")
    u.add(spec_text('wnaf.vrs'))
    # ---- wnaf_table
    u.add(u.real_fn('wnaf', '', 'wnaf_table', """    requires 1 <= window <= 22
    ensures is_wnaf_table(final(table)@, base.pt(), window as int)""",
                    body_edit=lambda b: lit_i32(u, weave.name_for_binders(b, u.rewrites)).replace('{', '{ proof { lemma_shl_usize((window - 1) as usize); lemma_shl_i32((window - 1) as usize); assert(smul(1, base.pt()) == base.pt()); } let ghost p0 = base.pt();', 1),
                    invariants=["""        invariant table@.len() == _i1, dbl.pt() == smul(2, p0), base.pt() == smul(2 * _i1 + 1, p0), smul(1, p0) == p0,
            (1i32 << ((window - 1) as usize)) == pow2((window - 1) as nat), 1 <= window <= 22,
            forall|j: int| 0 <= j < _i1 ==> #[trigger] table@[j].pt() == smul(2 * j + 1, p0)"""],
                    sig_edit=lambda sg: sg.replace('pub(crate) ', 'pub ')))
    def exp_edit(b):
        b = weave.rewrite_rev_iter(b, u.rewrites, ["""        invariant {i} <= wnaf@.len(), result.pt() == smul(wsuf(wnaf@, {i} as int), bp), !found_one ==> wsuf(wnaf@, {i} as int) == 0,
            is_wnaf_table(table@, bp, window), digits_ok(wnaf@, window), 1 <= window <= 22"""])
        b = deref_ops(u, b, 'n')
        b = b.replace('{', '{ proof { assert(wnaf@.subrange(wnaf@.len() as int, wnaf@.len() as int) =~= Seq::<i64>::empty()); assert(wsuf(wnaf@, wnaf@.len() as int) == 0); }', 1)
        # ghost: unfold the suffix value at the head of each iteration
        b = re.sub(r'(let n = &wnaf\[ridx1_\];)', r'\1 proof { lemma_wsuf_step(wnaf@, ridx1_ as int); let ghost _d = wnaf@[ridx1_ as int]; assert(digit_ok(_d, window)); lemma_digit(*n, window); } let ghost r0 = result.pt();', b, 1)
        return b
    u.add(u.real_fn('wnaf', '', 'wnaf_exp', """    requires 1 <= window <= 22, is_wnaf_table(table@, bp, window), digits_ok(wnaf@, window)
    ensures ret.pt() == smul(wv(wnaf@), bp)""", ret='ret',
        sig_edit=lambda sg: sg.replace('pub(crate) ', 'pub ').replace('wnaf: &[i64])', 'wnaf: &[i64], Ghost(bp): Ghost<GE>, Ghost(window): Ghost<int>)'),
        body_edit=exp_edit, tail="proof { assert(wnaf@.subrange(0, wnaf@.len() as int) =~= wnaf@); }"))
    def form_edit(b):
        b = b.replace('{', """{ let ghost c0 = c.val(); proof { S::cap_bound(); lemma_pow2_le(window as nat, 22); assert(pow2(22) == 0x400000) by(compute); assert(pow2(0) == 1); }""", 1)
        b = weave.attach_loop_invariants(b, ["""        invariant wv(wnaf@) + (c.val() as int) * (pow2(wnaf@.len()) as int) == c0, digits_ok(wnaf@, window as int),
            c.val() + pow2(window as nat) < S::cap(), 1 <= window <= 22, S::cap() >= W64, pow2(window as nat) <= 0x400000
        decreases c.val()"""], u.rewrites)
        # ghost at the recoding step: value of the low limb residue, the recentred digit, its bounds
        b = weave.insert_at(b, r'u\s*=\s*\(c\.as_ref\(\)\[0\]', """proof { lemma_shl_u64((window + 1) as usize); lemma_shl_i64((window + 1) as usize); lemma_shl_i64(window);
                assert(pow2((window + 1) as nat) == 2 * pow2(window as nat)); } let ghost x0 = (c.val() % W64) as u64; """, 'before')
        b = weave.insert_at(b, r'if\s+u\s*>\s*0\s*\{', """proof { let u0 = (x0 as nat % pow2((window + 1) as nat)) as int; lemma_recode(c.val(), x0, window as int, u0, u as int); } """, 'before')
        b = weave.insert_at(b, r'wnaf\.push\(u\)', """let ghost s0 = wnaf@; let ghost cv = c.val(); proof { assert(digit_ok(u, window as int)); } """, 'before')
        b = weave.insert_at(b, r'c\.div2\(\)\s*;', """ proof { lemma_wnaf_step(s0, u, cvb, c0 as int); assert(cv == cvb - u); assert(pow2(wnaf@.len()) == pow2(s0.len() + 1)); lemma_pow2_pos(window as nat);
                assert forall|i: int| 0 <= i < wnaf@.len() implies digit_ok(#[trigger] wnaf@[i], window as int) by { if i < s0.len() { assert(wnaf@[i] == s0[i]); } } }""", 'after')
        b = weave.insert_at(b, r'let\s+mut\s+u\s*;', "let ghost cvb = c.val(); ", 'before')
        return b
    u.add(u.real_fn('wnaf', '', 'wnaf_form', """    requires 1 <= window <= 22, c.val() + pow2(window as nat) < S::cap()
    ensures wv(final(wnaf)@) == c.val(), digits_ok(final(wnaf)@, window as int)""",
        sig_edit=lambda sg: sg.replace('pub(crate) ', 'pub '), body_edit=form_edit))
    # the recommended window sizes (G1 and G2): always in the documented range 2..=22
    u.add("""pub struct FrRepr(pub [u64; 4]);
impl FrRepr {
    // C08 (kani:limbs, harness num_bits): the bit length of a 4-limb value is at most 256
    #[verifier::external_body]
    pub fn num_bits(&self) -> (ret: u32) ensures ret <= 256 { unimplemented!() }
}
pub struct G1 { pub dummy: u8 }
pub struct G2 { pub dummy: u8 }""")
    for g in ('G1', 'G2'):
        u.add(f"impl {g} {{")
        u.add(u.real_fn(g.lower(), f'impl {g}', 'empirical_recommended_wnaf_for_scalar', "    ensures 2 <= ret <= 22", ret='ret', vis='pub'))
        u.add(u.real_fn(g.lower(), f'impl {g}', 'empirical_recommended_wnaf_for_num_scalars', "    ensures 2 <= ret <= 22", ret='ret', vis='pub',
                        body_edit=lambda b: weave.rewrite_for_array_ref(b, u.rewrites, ["        invariant {i} <= RECOMMENDATIONS.len(), 4 <= ret <= 4 + {i}, RECOMMENDATIONS.len() <= 12"])))
        # the trait-level entry points (curve_impl! text): delegation to the empirical tables
        u.add(u.real_fn(g.lower(), f're:impl\\s+CurveProjective\\s+for\\s+{g}\\b', 'recommended_wnaf_for_scalar', "    ensures 2 <= ret <= 22", ret='ret', vis='pub',
                        sig_edit=lambda sg: re.sub(r'<Self::Scalar\s+as\s+PrimeField>::Repr', 'FrRepr', sg)))
        u.add(u.real_fn(g.lower(), f're:impl\\s+CurveProjective\\s+for\\s+{g}\\b', 'recommended_wnaf_for_num_scalars', "    ensures 2 <= ret <= 22", ret='ret', vis='pub'))
        u.add("}")
    contexts(u)
    u.close = "} // mod code\n"
    return u


SCALAR_TY = re.compile(r'<<G\s+as\s+CurveProjective>::Scalar\s+as\s+PrimeField>::Repr')


def contexts(u):
    """the Wnaf context type-states (staging, reuse).  The two generic methods `base<G>` / `scalar<G>` are bounded by AsRef / AsMut, which the
    crate's own API instantiates only with Vec<_>, &mut Vec<_> and &[_]: R6m writes each of them out at those instances (receiver expressions
    `x.as_mut()` / `x.as_ref()` -> the reborrow std's impls return)."""
    t = u.real_item('wnaf', 'struct', r'struct Wnaf\b')
    u.add(re.sub(r'\n(\s*)(base|scalar|window_size):', r'\n\1pub \2:', t))

    def common_sig(sg):
        sg = sg.replace('G: CurveProjective', 'G: WnafCurve')
        return SCALAR_TY.sub('G::ScalarRepr', sg)

    def common_body(b):
        return b.replace('::alloc::vec::Vec::new()', 'Vec::new()')
    H0 = 're:impl<G: CurveProjective> Wnaf<\\(\\), Vec<G>, Vec<i64>>'
    u.add("impl<G: WnafCurve> Wnaf<(), Vec<G>, Vec<i64>> {")
    u.add(u.real_fn('wnaf', H0, 'new', "", ret='ret', sig_edit=common_sig, body_edit=common_body))
    u.add(u.real_fn('wnaf', H0, 'base', """    ensures 2 <= ret.window_size <= 22, is_wnaf_table(ret.base@, base.pt(), ret.window_size as int), is_table_of_first(ret.base@, ret.window_size as int), ret.base@[0].pt() == base.pt()""",
                    ret='ret', sig_edit=common_sig,
                    body_edit=lambda b: common_body(b).replace('Wnaf {', 'proof { lemma_table_first(self.base@, base.pt(), window_size as int); assert(self.base@.subrange(0, self.base@.len() as int) =~= self.base@); } Wnaf {', 1)))
    u.add(u.real_fn('wnaf', H0, 'scalar', """    requires scalar.val() + pow2(22) < G::ScalarRepr::cap()
    ensures 2 <= ret.window_size <= 22, wv(ret.scalar@) == scalar.val(), digits_ok(ret.scalar@, ret.window_size as int)""",
                    ret='ret', sig_edit=common_sig,
                    body_edit=lambda b: common_body(b).replace('wnaf_form(', 'proof { lemma_pow2_le(window_size as nat, 22); } wnaf_form(', 1)
                    .replace('Wnaf {', 'proof { assert(self.scalar@.subrange(0, self.scalar@.len() as int) =~= self.scalar@); } Wnaf {', 1)))
    u.add("}")
    # shared(): fresh space for the other half, the computed half and the window are carried over
    u.add("impl<'a, G: WnafCurve> Wnaf<usize, &'a [G], &'a mut Vec<i64>> {")
    u.add(u.real_fn('wnaf', "re:impl<'a, G: CurveProjective> Wnaf<usize, &'a \\[G\\], &'a mut Vec<i64>>", 'shared',
                    "    ensures ret.base@ == self.base@, ret.window_size == self.window_size", ret='ret', sig_edit=common_sig, body_edit=common_body))
    u.add("}")
    u.add("impl<'a, G: WnafCurve> Wnaf<usize, &'a mut Vec<G>, &'a [i64]> {")
    u.add(u.real_fn('wnaf', "re:impl<'a, G: CurveProjective> Wnaf<usize, &'a mut Vec<G>, &'a \\[i64\\]>", 'shared',
                    "    ensures ret.scalar@ == self.scalar@, ret.window_size == self.window_size", ret='ret', sig_edit=common_sig, body_edit=common_body))
    u.add("}")
    # the two generic evaluation methods at the instances the API produces
    HB = 're:impl<B, S: AsRef<\\[i64\\]>> Wnaf<usize, B, S>'
    HS = 're:impl<B, S: AsMut<Vec<i64>>> Wnaf<usize, B, S>'

    def mono_sig(sg):
        sg = re.sub(r'<G:\s*CurveProjective>', '', sg)
        sg = re.sub(r'\bwhere\s+B:\s*As(Mut|Ref)<[^{]*?>\s*$', '', sg.rstrip()) if re.search(r'\bwhere\b', sg) else sg
        return common_sig(sg)
    for hdr, mexpr in (("impl<'a, G: WnafCurve> Wnaf<usize, &'a mut Vec<G>, &'a [i64]>", '&mut *self.base'), ("impl<'a, G: WnafCurve> Wnaf<usize, Vec<G>, &'a [i64]>", '&mut self.base')):
        def edit(b, mexpr=mexpr):
            n = b.count('self.base.as_mut()') + b.count('self.scalar.as_ref()')
            if n < 1:
                raise weave.AnchorLost('Wnaf::base<G>: receiver expressions changed')
            u.rewrites['R6m'] = u.rewrites.get('R6m', 0) + n
            b = b.replace('self.base.as_mut()', mexpr).replace('self.scalar.as_ref()', 'self.scalar')
            return b.replace('self.scalar)', 'self.scalar, Ghost(base.pt()), Ghost(self.window_size as int))', 1)
        u.add(hdr + " {")
        u.add(u.real_fn('wnaf', HB, 'base', """    requires 1 <= old(self).window_size <= 22, digits_ok(old(self).scalar@, old(self).window_size as int)
    ensures ret.pt() == smul(wv(old(self).scalar@), base.pt()), final(self).scalar@ == old(self).scalar@, final(self).window_size == old(self).window_size""",
                        ret='ret', sig_edit=mono_sig, body_edit=edit))
        u.add("}")
    for hdr, mexpr in (("impl<'a, G: WnafCurve> Wnaf<usize, &'a [G], &'a mut Vec<i64>>", '&mut *self.scalar'), ("impl<'a, G: WnafCurve> Wnaf<usize, &'a [G], Vec<i64>>", '&mut self.scalar')):
        def edit(b, mexpr=mexpr):
            n = b.count('self.scalar.as_mut()') + b.count('self.base.as_ref()')
            if n < 1:
                raise weave.AnchorLost('Wnaf::scalar<G>: receiver expressions changed')
            u.rewrites['R6m'] = u.rewrites.get('R6m', 0) + n
            b = b.replace('self.scalar.as_mut()', mexpr).replace('self.base.as_ref()', 'self.base')
            b = b.replace('wnaf_exp(self.base, ' + mexpr + ')', 'wnaf_exp(self.base, ' + mexpr + ', Ghost(self.base@[0].pt()), Ghost(self.window_size as int))', 1)
            return b.replace('{', '{ proof { lemma_pow2_le(self.window_size as nat, 22); }', 1)
        u.add(hdr + " {")
        u.add(u.real_fn('wnaf', HS, 'scalar', """    requires 1 <= old(self).window_size <= 22, is_table_of_first(old(self).base@, old(self).window_size as int), scalar.val() + pow2(22) < G::ScalarRepr::cap()
    ensures ret.pt() == smul(scalar.val() as int, old(self).base@[0].pt()), final(self).base@ == old(self).base@, final(self).window_size == old(self).window_size""",
                        ret='ret', sig_edit=mono_sig, body_edit=edit))
        u.add("}")
