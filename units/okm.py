"""Unit `okm`: from_okm for Fq and Fr, from_ro for Fq2 (C13: the two reductions and the block splitting)."""
import re
from vx.unit import Unit, spec_text
from vx import weave

Q = 0x1a0111ea397fe69a4b1ba7b6434bacd764774b84f38512bf6730d2a0f6b0f6241eabfffeb153ffffb9feffffffffaaab
R = 0x73eda753299d7d483339d80809a1d80553bda402fffe5bfeffffffff00000001


def const_limbs(text):
    return [int(x.replace('u64', '').replace('_', ''), 16) for x in re.findall(r'0x[0-9a-fA-F_]+(?:u64)?', text)]


def mont_value(limbs, modulus):
    n = len(limbs)
    v = sum(l << (64 * i) for i, l in enumerate(limbs))
    return v * pow(1 << (64 * n), -1, modulus) % modulus


def build(src, workdir):
    u = Unit('okm', src)
    u.add("use vstd::arithmetic::div_mod::*;\nuse vstd::arithmetic::mul::*;")
    u.add(spec_text('base.vrs'))
    for mod, name in (('fq', 'FqRepr'), ('fq', 'Fq'), ('fr', 'FrRepr'), ('fr', 'Fr')):
        t = u.real_item(mod, 'struct', r'struct ' + name + r'\b', derive='Clone, Copy')
        t = re.sub(r'pub\((super|crate)\)', 'pub', t)
        t = re.sub(r'struct (Fr|Fq)\((F.Repr)\)', r'struct \1(pub \2)', t)   # field visibility (no runtime meaning)
        u.add(t)
    u.add(spec_text('fq_stub.vrs'))
    u.add(spec_text('bits.vrs').split('pub trait AsRefU64')[0])
    u.add(spec_text('okm.vrs'))
    u.add(spec_text('fr_stub.vrs'))
    u.add("""impl FqRepr {
    #[verifier::external_body]
    pub fn default() -> (r: FqRepr) { unimplemented!() }
    #[verifier::external_body]
    pub fn read_be<Rd: ByteReader>(&mut self, reader: Rd) -> (ret: Result<(), IoError>)
        ensures reader.stream().len() == 48 ==> ret.is_ok() && limbs_val(final(self).0@) == be_val(reader.stream()),
    { unimplemented!() }
}
impl FrRepr {
    #[verifier::external_body]
    pub fn default() -> (r: FrRepr) { unimplemented!() }
    #[verifier::external_body]
    pub fn read_be<Rd: ByteReader>(&mut self, reader: Rd) -> (ret: Result<(), IoError>)
        ensures reader.stream().len() == 32 ==> ret.is_ok() && limbs_val(final(self).0@) == be_val(reader.stream()),
    { unimplemented!() }
}
impl Fq {
    #[verifier::external_body]
    pub fn from_repr(r: FqRepr) -> (ret: Result<Fq, PrimeFieldDecodingError>)
        ensures (limbs_val(r.0@) < QV()) == ret.is_ok(), ret.is_ok() ==> ret.unwrap().v() == limbs_val(r.0@)
    { unimplemented!() }
}
pub proof fn lemma_combine(hi: int, lo: int, c: int, m: int, sh: int)
    requires m > 0, c == sh % m
    ensures ((((hi * c) % m) + lo) % m) == ((hi * sh + lo) % m)
{
    let a = hi * c; let b = hi * sh;
    lemma_mul_mod_noop_right(hi, sh, m);      // (hi * (sh % m)) % m == (hi * sh) % m
    assert(a % m == b % m);
    lemma_add_mod_noop(a, lo, m);             // ((a%m) + (lo%m)) % m == (a + lo) % m
    lemma_add_mod_noop(b, lo, m);
    lemma_mod_twice(a, m);
    lemma_add_mod_noop(a % m, lo, m);         // (((a%m)%m) + (lo%m)) % m == ((a%m) + lo) % m
}
""")
    for F, mod, L, half, pad, modulus, mv, rng in (('Fq', 'fq', 64, 32, 16, Q, 'Q()', 'ax_q_value(); ax_q_pos();'), ('Fr', 'fr', 48, 24, 8, R, 'RQ()', 'ax_rq_value();')):
        sig, body = u.slice_fn(mod, f'impl BaseFromRO for {F}', 'from_okm')
        cm = re.search(r'const (F_2_\d+): ' + F + r' =\s*' + F + r'\(' + F + r'Repr\(\[([^\]]*)\]\)\);', body)
        if not cm:
            raise weave.AnchorLost(f"anchor lost: shift constant in {F}::from_okm")
        cname = cm.group(1)
        limbs = const_limbs(cm.group(2))
        cval = mont_value(limbs, modulus)
        lit = ", ".join(hex(l) + "u64" for l in limbs)
        valfn = 'fq_val' if F == 'Fq' else 'fr_val'
        u.add(f"""// closed-term fact about the crate's constant {cname} (Montgomery form -> value); the same statement is proved in unit `consts`
#[verifier::external_body]
pub proof fn ax_const_{F.lower()}_shift() ensures {valfn}(seq![{lit}]) == {hex(cval)}int {{}}
""")
        shift = 1 << (8 * half)
        ghost = (f" proof {{ {rng} okm.lemma_len(); let b = okm.bytes(); let hi = b.subrange(0, {half}); let lo = b.subrange({half}, {L}); "
                 f"lemma_be_bound(hi); lemma_be_bound(lo); "
                 f"assert(pow256({half}) == {hex(shift)}nat) by(compute); assert(b =~= hi + lo); lemma_be_concat(hi, lo); "
                 f"ax_const_{F.lower()}_shift(); assert({cname}.0.0@ =~= seq![{lit}]); assert({hex(cval)}int == {hex(shift)}int % {hex(modulus)}int) by(compute); "
                 f"lemma_combine(be_val(hi) as int, be_val(lo) as int, {hex(cval)}int, {mv}, {hex(shift)}int); }} ")

        def edit(body, half=half, pad=pad, L=L):
            n = body.count(f'&okm[..{half}]') + body.count(f'&okm[{half}..]')
            u.rewrites['R12'] = u.rewrites.get('R12', 0) + n
            body = body.replace(f'&okm[..{half}]', f'okm.slice_to({half})').replace(f'&okm[{half}..]', f'okm.slice_from({half})')
            k = [0]

            def after(m):
                i = k[0]; k[0] += 1
                return m.group(0) + (f" proof {{ lemma_be_bound(okm.bytes().subrange({0 if i == 0 else half}, {half if i == 0 else L})); assert(pow256({half}) == {hex(1 << (8 * half))}nat) by(compute); }}")
            body = re.sub(r'repr\.read_be\(Cursor::new\(\[0;\s*\d+\]\)\.chain\(Cursor::new\(okm\.slice_(?:to|from)\(\d+\)\)\)\)\.unwrap\(\);', after, body)
            body = body.replace('{', '{ proof { okm.lemma_len(); assert forall|z: Seq<u8>, t: Seq<u8>| (forall|i: int| 0 <= i < z.len() ==> z[i] == 0) implies #[trigger] be_val(z + t) == be_val(t) by { lemma_be_zeros(z); lemma_be_concat(z, t); assert(0 * pow256(t.len()) == 0) by(nonlinear_arith); } } ', 1)
            return body
        u.add(f"impl {F} {{")
        u.add(u.real_fn(mod, f'impl BaseFromRO for {F}', 'from_okm', f"    ensures ret.v() == (be_val(okm.bytes()) as int) % {mv}", vis='pub',
                        body_edit=edit, tail=ghost, subst=(('GenericArray<u8, U' + str(L) + '>', f'GenericArray<u8, U{L}>'),)))
        u.add("}")
    # ---- Fq2::from_ro: two Fq blocks, real part first
    u.add(spec_text('tower.vrs').split('pub open spec fn f2zero')[0])
    u.add(u.real_item('fq2', 'struct', r'struct Fq2\b', derive='Clone, Copy'))
    u.add("impl Fq2 { pub open spec fn v(&self) -> F2 { F2 { c0: self.c0.v(), c1: self.c1.v() } } }")

    def ro_edit(body):
        n = body.count('&okm[..64]') + body.count('&okm[64..]')
        u.rewrites['R12'] = u.rewrites.get('R12', 0) + n
        body = body.replace('&okm[..64]', 'okm.slice_to(64)').replace('&okm[64..]', 'okm.slice_from(64)')
        return body.replace('{', '{ proof { okm.lemma_len(); } ', 1)
    u.add("impl Fq2 {")
    u.add(u.real_fn('fq2', 'impl FromRO for Fq2', 'from_ro',
                    "    ensures ret.v() == f2((be_val(okm.bytes().subrange(0, 64)) as int) % Q(), (be_val(okm.bytes().subrange(64, 128)) as int) % Q())",
                    vis='pub', body_edit=ro_edit))
    u.add("}")
    # ---- hash_to_field: count elements, element i from the i-th block of the expanded bytes
    u.add("""pub trait FromRO: Sized {
    type Length: ArrayLen;
    spec fn ro_ok(b: Seq<u8>, r: Self) -> bool;          // r is the field element obtained from the block b
    fn from_ro(okm: &GenericArray<u8, <Self as FromRO>::Length>) -> (ret: Self) ensures Self::ro_ok(okm.bytes(), ret);
}
pub trait ExpandMsg {
    spec fn expand_spec(msg: Seq<u8>, dst: Seq<u8>, len: int) -> Seq<u8>;     // RFC 9380 expand_message (D3: not decided here)
    fn expand_message(msg: &[u8], dst: &[u8], len_in_bytes: usize) -> (ret: Vec<u8>)
        ensures ret@ == Self::expand_spec(msg@, dst@, len_in_bytes as int), ret@.len() == len_in_bytes;
}
""")

    def h2f_edit(body):
        m = re.search(r'&pseudo_random_bytes\[([^\]]*?)\.\.([^\]]*?)\]', body, re.S)
        if not m:
            raise weave.AnchorLost("anchor lost: block slicing in hash_to_field")
        u.rewrites['R12'] = u.rewrites.get('R12', 0) + 1
        body = body[:m.start()] + f"vstd::slice::slice_subrange(pseudo_random_bytes.as_slice(), {m.group(1).strip()}, {m.group(2).strip()})" + body[m.end():]
        return body
    L_ = "<T as FromRO>::Length::alen()"
    t = u.real_fn('hash_to_field', '', 'hash_to_field', f"""    requires count * {L_} <= usize::MAX
    ensures ret@.len() == count,
        forall|i: int| 0 <= i < count ==> T::ro_ok(X::expand_spec(msg@, dst@, count * {L_}).subrange(i * {L_}, (i + 1) * {L_}), #[trigger] ret@[i])""",
                  body_edit=h2f_edit,
                  invariants=[f"""    invariant ret@.len() == idx, len_per_elm == {L_}, len_in_bytes == count * len_per_elm, pseudo_random_bytes@.len() == len_in_bytes,
        pseudo_random_bytes@ == X::expand_spec(msg@, dst@, count * {L_}),
        forall|i: int| 0 <= i < idx ==> T::ro_ok(pseudo_random_bytes@.subrange(i * {L_}, (i + 1) * {L_}), #[trigger] ret@[i])"""],
                  ghost=[(r'let bytes_to_convert', f" proof {{ assert(idx * len_per_elm + len_per_elm <= count * len_per_elm) by(nonlinear_arith) requires idx < count, len_per_elm >= 0; assert((idx + 1) * len_per_elm == idx * len_per_elm + len_per_elm) by(nonlinear_arith); }} ", 'before')])
    u.add(t)
    return u
