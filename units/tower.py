"""Unit `tower`: Fq2, Fq6, Fq12 real code against the quotient-ring specs of specs/tower.vrs (C09).
Fq is abstracted by its contracts (specs/fq_stub.vrs); callers see callee *contracts* only."""
import re
from vx.unit import Unit, spec_text
from vx import ringjob

# view structure of the tower types: fields in declaration order
TYPES = {
    'Fq':   dict(view='int', fields=None, mod='fq'),
    'Fq2':  dict(view='F2', fields=[('c0', 'Fq'), ('c1', 'Fq')], mod='fq2', pre='f2'),
    'Fq6':  dict(view='F6', fields=[('c0', 'Fq2'), ('c1', 'Fq2'), ('c2', 'Fq2')], mod='fq6', pre='f6'),
    'Fq12': dict(view='F12', fields=[('c0', 'Fq6'), ('c1', 'Fq6')], mod='fq12', pre='f12'),
}


def fn(ty, impl, name, args='', upd=None, ret=None, rty=None, ring=True, raw=None, **kw):
    return dict(ty=ty, impl=impl, name=name, args=args, upd=upd, ret=ret, rty=rty, ring=ring, raw=raw, kw=kw)


def field_fns(T, p, extra_unary=()):
    """the Field-trait functions common to the three levels"""
    F = f'impl Field for {T}'
    L = [
        fn(T, F, 'zero', ret=f'{p}zero()', rty=T, ring=False),
        fn(T, F, 'one', ret=f'{p}one()', rty=T, ring=False),
        fn(T, F, 'is_zero', args='&self', ret=f'(SELF == {p}zero())', rty='bool', ring=False),
        fn(T, F, 'double', args='&mut self', upd=f'{p}dbl(SELF)', ring=False),
        fn(T, F, 'negate', args='&mut self', upd=f'{p}neg(SELF)', ring=False),
        fn(T, F, 'add_assign', args='&mut self, other: &Self', upd=f'{p}add(SELF, other.v())', ring=False),
        fn(T, F, 'sub_assign', args='&mut self, other: &Self', upd=f'{p}sub(SELF, other.v())', ring=False),
        fn(T, F, 'mul_assign', args='&mut self, other: &Self', upd=f'{p}mul(SELF, other.v())'),
        fn(T, F, 'square', args='&mut self', upd=f'{p}sq(SELF)'),
    ]
    return L


FNS = (
    field_fns('Fq2', 'f2') + [
        fn('Fq2', 'impl Fq2', 'mul_by_nonresidue', args='&mut self', upd='f2mulnr(SELF)'),
        fn('Fq2', 'impl Fq2', 'norm', args='&self', ret='f2norm(SELF)', rty='Fq'),
    ] +
    field_fns('Fq6', 'f6') + [
        fn('Fq6', 'impl Fq6', 'mul_by_nonresidue', args='&mut self', upd='f6mulnr(SELF)'),
        fn('Fq6', 'impl Fq6', 'mul_by_1', args='&mut self, c1: &Fq2', upd='f6mul_by_1(SELF, c1.v())'),
        fn('Fq6', 'impl Fq6', 'mul_by_01', args='&mut self, c0: &Fq2, c1: &Fq2', upd='f6mul_by_01(SELF, c0.v(), c1.v())'),
    ] +
    field_fns('Fq12', 'f12') + [
        fn('Fq12', 'impl Fq12', 'conjugate', args='&mut self', upd='f12conj(SELF)', ring=False),
        fn('Fq12', 'impl Fq12', 'mul_by_014', args='&mut self, c0: &Fq2, c1: &Fq2, c4: &Fq2',
           upd='f12mul_by_014(SELF, c0.v(), c1.v(), c4.v())'),
    ]
)


def build(src, workdir):
    u = Unit('tower', src)
    u.add_spec('base.vrs', symx=False)
    u.add("broadcast use ax_fq_range;" if False else "")
    # real struct definitions (visibility qualifiers normalised to `pub`: no runtime meaning)
    for mod, name in (('fq', 'FqRepr'), ('fq', 'Fq')):
        t = u.real_item(mod, 'struct', r'struct ' + name + r'\b', derive='Clone, Copy')
        t = re.sub(r'pub\((super|crate)\)', 'pub', t)
        u.add(t)
    u.add_spec('fq_stub.vrs', symx=False)
    u.add_spec('tower.vrs')
    u.lemma_prelude = spec_text('base.vrs') + ringjob.ARITH_LEMMAS
    rj = ringjob.RingJobs(u, TYPES, workdir)
    for T in ('Fq2', 'Fq6', 'Fq12'):
        info = TYPES[T]
        u.add(u.real_item(info['mod'], 'struct', r'struct ' + T + r'\b', derive='Clone, Copy'))
        rj.declare_type(T)
    for f in FNS:
        rj.add_fn(f)
    rj.finish()
    return u
