"""Unit `tower`: Fq2, Fq6, Fq12 real code against the quotient-ring specs of specs/tower.vrs (C09).
Fq is abstracted by its contracts (specs/fq_stub.vrs); callers see callee *contracts* only."""
import re
from vx.unit import Unit, spec_text
from vx import ringjob

# view structure of the tower types: fields in declaration order
TYPES = {
    'Fq':   dict(view='int', fields=None, mod='fq'),
    'Fq2':  dict(view='F2', fields=[('c0', 'Fq'), ('c1', 'Fq')], mod='fq2', pre='f2'),
    'Fq6':  dict(view='F6', fields=[('c0', 'Fq2'), ('c1', 'Fq2'), ('c2', 'Fq2')], mod='fq6', pre='f6'),
    'Fq12': dict(view='F12', fields=[('c0', 'Fq6'), ('c1', 'Fq6')], mod='fq12', pre='f12'),
}


def fn(ty, impl, name, args='', upd=None, ret=None, rty=None, ring=True, raw=None, run=None, place=None,
       fresh_actuals=None, symx_impl=None, nosymx=False, **kw):
    return dict(ty=ty, impl=impl, name=name, args=args, upd=upd, ret=ret, rty=rty, ring=ring, raw=raw, run=run,
                place=place, fresh_actuals=fresh_actuals, symx_impl=symx_impl, nosymx=nosymx, kw=kw)


def inverse_fn(T, p, V, sub, some_anchor):
    """inverse(): Some(y) => x*y == 1 (and x != 0); None => x == 0.  The code inverts the relative norm;
    both paths need `code norm == spec norm` (ring lemma) and A5 (norm vanishes only at zero)."""
    raw = (f"    ensures match ret {{ Some(y) => {p}mul(self.v(), y.v()) == {p}one() && self.v() != {p}zero(), "
           f"None => self.v() == {p}zero() }}")
    run = dict(
        tag='if r.is_some() { "some" } else { "none" }',
        code=f'{{ let mut c = last_cond_lhs(); if let Some(y) = &r {{ c.extend(flat_vec(&{p}mul(s0.v(), y.v()))); }} syms_json(&c) }}',
        spec=f'{{ let mut c = flat_vec(&{p}norm(s0.v())); if r.is_some() {{ c.extend(flat_vec(&{p}one())); }} syms_json(&c) }}',
    )
    symx_impl = (f"  pub fn inverse(&self) -> Option<{T}> {{ if self.is_zero() {{ None }} else {{ let y = {T}::fresh(&fresh_name(\"inv\")); "
                 f"let mut a = vec![]; let mut b = vec![]; {p}mul(self.v(), y.v()).flat(&mut a); {p}one().flat(&mut b); "
                 f"for (l, r) in a.into_iter().zip(b.into_iter()) {{ add_hyp(l, r); }} Some(y) }} }}")
    return fn(T, f'impl Field for {T}', 'inverse', args='&self', raw=raw, run=run, symx_impl=symx_impl,
              place={'some': (some_anchor, 'before'), 'none': (r'\bmatch\b', 'before')},
              fresh_actuals={'inv': 't'},
              ghost=[(r'\bmatch\b', f"proof {{ lemma_{p}in(self); ax_{p}norm_zero(self.v()); }}", 'before')])


def field_fns(T, p, extra_unary=()):
    """the Field-trait functions common to the three levels"""
    F = f'impl Field for {T}'
    L = [
        fn(T, F, 'zero', ret=f'{p}zero()', rty=T, ring=False),
        fn(T, F, 'one', ret=f'{p}one()', rty=T, ring=False),
        fn(T, F, 'is_zero', args='&self', ret=f'(SELF == {p}zero())', rty='bool', ring=False),
        fn(T, F, 'double', args='&mut self', upd=f'{p}dbl(SELF)', ring=False),
        fn(T, F, 'negate', args='&mut self', upd=f'{p}neg(SELF)', ring=False),
        fn(T, F, 'add_assign', args='&mut self, other: &Self', upd=f'{p}add(SELF, other.v())', ring=False),
        fn(T, F, 'sub_assign', args='&mut self, other: &Self', upd=f'{p}sub(SELF, other.v())', ring=False),
        fn(T, F, 'mul_assign', args='&mut self, other: &Self', upd=f'{p}mul(SELF, other.v())'),
        fn(T, F, 'square', args='&mut self', upd=f'{p}sq(SELF)'),
        fn(T, F, 'frobenius_map', args='&mut self, power: usize', upd=f'{p}frob(SELF, power as int)', ring=False, nosymx=True),
    ]
    return L


FNS = (
    field_fns('Fq2', 'f2') + [
        fn('Fq2', 'impl Fq2', 'mul_by_nonresidue', args='&mut self', upd='f2mulnr(SELF)'),
        fn('Fq2', 'impl Fq2', 'norm', args='&self', ret='f2norm(SELF)', rty='Fq'),
        inverse_fn('Fq2', 'f2', 'F2', 'Fq', r'tmp\s*\}\s*\)\s*,\s*None'),
    ] +
    field_fns('Fq6', 'f6') + [
        fn('Fq6', 'impl Fq6', 'mul_by_nonresidue', args='&mut self', upd='f6mulnr(SELF)'),
        fn('Fq6', 'impl Fq6', 'mul_by_1', args='&mut self, c1: &Fq2', upd='f6mul_by_1(SELF, c1.v())'),
        fn('Fq6', 'impl Fq6', 'mul_by_01', args='&mut self, c0: &Fq2, c1: &Fq2', upd='f6mul_by_01(SELF, c0.v(), c1.v())'),
        inverse_fn('Fq6', 'f6', 'F6', 'Fq2', r'Some\(tmp\)'),
    ] +
    field_fns('Fq12', 'f12') + [
        fn('Fq12', 'impl Fq12', 'conjugate', args='&mut self', upd='f12conj(SELF)', ring=False),
        fn('Fq12', 'impl Fq12', 'mul_by_014', args='&mut self, c0: &Fq2, c1: &Fq2, c4: &Fq2',
           upd='f12mul_by_014(SELF, c0.v(), c1.v(), c4.v())'),
        inverse_fn('Fq12', 'f12', 'F12', 'Fq6', r'tmp\s*\}\s*\)\s*,\s*None'),
    ]
)


def build(src, workdir):
    u = Unit('tower', src)
    u.add_spec('base.vrs', symx=False)
    u.add("broadcast use ax_fq_range;" if False else "")
    # real struct definitions (visibility qualifiers normalised to `pub`: no runtime meaning)
    for mod, name in (('fq', 'FqRepr'), ('fq', 'Fq')):
        t = u.real_item(mod, 'struct', r'struct ' + name + r'\b', derive='Clone, Copy')
        t = re.sub(r'pub\((super|crate)\)', 'pub', t)
        u.add(t)
    u.add_spec('fq_stub.vrs', symx=False)
    u.add_spec('tower.vrs')
    u.add_spec('tower_axioms.vrs', symx=False)
    u.add("""
pub proof fn lemma_f2in(x: &Fq2) ensures f2in(x.v()) { ax_fq_range(x.c0); ax_fq_range(x.c1); }
pub proof fn lemma_f6in(x: &Fq6) ensures f6in(x.v()) { lemma_f2in(&x.c0); lemma_f2in(&x.c1); lemma_f2in(&x.c2); }
pub proof fn lemma_f12in(x: &Fq12) ensures f12in(x.v()) { lemma_f6in(&x.c0); lemma_f6in(&x.c1); }
""")
    u.lemma_prelude = spec_text('base.vrs') + ringjob.ARITH_LEMMAS
    rj = ringjob.RingJobs(u, TYPES, workdir)
    for T in ('Fq2', 'Fq6', 'Fq12'):
        info = TYPES[T]
        u.add(u.real_item(info['mod'], 'struct', r'struct ' + T + r'\b', derive='Clone, Copy'))
        rj.declare_type(T)
    for c in ('FROBENIUS_COEFF_FQ2_C1', 'FROBENIUS_COEFF_FQ6_C1', 'FROBENIUS_COEFF_FQ6_C2', 'FROBENIUS_COEFF_FQ12_C1'):
        u.add(u.real_const('fq', c))
    u.add_spec('tower_frob.vrs', symx=False)
    for f in FNS:
        rj.add_fn(f)
    rj.finish()
    return u


# ---------------------------------------------------------------------------------------------------------
def stub_text(f, types=TYPES):
    """external_body stub of a tower function carrying exactly the contract proved for it in this unit"""
    from vx.ringjob import RingJobs
    rj = RingJobs.__new__(RingJobs)
    rj.types = types
    c = rj.contract(f)
    T = f['ty']
    if f['upd']:
        sig = f"pub fn {f['name']}({f['args']})"
    else:
        rty = f['rty'] or 'Self'
        if f['name'] == 'inverse':
            rty = 'Option<Self>'
        sig = f"pub fn {f['name']}({f['args']}) -> (ret: {rty})"
    return f"    #[verifier::external_body]\n    {sig}\n    {c.strip()}\n    {{ unimplemented!() }}\n"


def tower_env(u, symx=False, opaque=()):
    """the tower as seen by the layers above it: real structs and constant tables, trusted specs, and every
    tower function as an external_body stub with the contract that unit `tower` proves for the real body."""
    import re as _re
    u.add_spec('base.vrs', symx=False)
    for mod, name in (('fq', 'FqRepr'), ('fq', 'Fq')):
        t = u.real_item(mod, 'struct', r'struct ' + name + r'\b', derive='Clone, Copy')
        u.add(_re.sub(r'pub\((super|crate)\)', 'pub', t))
    u.add_spec('fq_stub.vrs', symx=False)
    tw = spec_text('tower.vrs')
    if opaque == 'all':
        import re as _r
        keep = {'f2', 'f6', 'f12', 'f2zero', 'f2one', 'f6zero', 'f6one', 'f12zero', 'f12one', 'f2in', 'f6in', 'f12in', 'f12sq', 'f6sq', 'f2sq'}
        opaque = [n for n in _r.findall(r'pub open spec fn (f(?:2|6|12)\w*)\(', tw + spec_text('tower_frob.vrs')) if n not in keep]
    for name in opaque:
        tw = tw.replace(f"pub open spec fn {name}(", f"#[verifier::opaque]\npub open spec fn {name}(")
    u.parts.append(tw)
    if symx:
        from vx.unit import verus_to_rust_spec
        u.symx_parts.append(verus_to_rust_spec(spec_text('tower.vrs')))
    u.add_spec('tower_axioms.vrs', symx=False)
    for T in ('Fq2', 'Fq6', 'Fq12'):
        info = TYPES[T]
        V = info['view']
        u.add(u.real_item(info['mod'], 'struct', r'struct ' + T + r'\b', derive='Clone, Copy'))
        u.add(f"impl {T} {{ pub open spec fn v(&self) -> {V} {{ {V} {{ " + ", ".join(f"{f}: self.{f}.v()" for f, _ in info['fields']) + " } } }")
        u.add(f"""impl vstd::std_specs::cmp::PartialEqSpecImpl for {T} {{
    open spec fn obeys_eq_spec() -> bool {{ true }}
    open spec fn eq_spec(&self, other: &{T}) -> bool {{ self.v() == other.v() }}
}}
impl PartialEq for {T} {{
    #[verifier::external_body]
    fn eq(&self, other: &{T}) -> (ret: bool) ensures ret == (self.v() == other.v()) {{ unimplemented!() }}
}}""")
    for c in ('FROBENIUS_COEFF_FQ2_C1', 'FROBENIUS_COEFF_FQ6_C1', 'FROBENIUS_COEFF_FQ6_C2', 'FROBENIUS_COEFF_FQ12_C1'):
        u.add(u.real_const('fq', c))
    fr = spec_text('tower_frob.vrs')
    for name in opaque:
        fr = fr.replace(f"pub open spec fn {name}(", f"#[verifier::opaque]\npub open spec fn {name}(")
    u.parts.append(fr)
    by_ty = {}
    for f in FNS:
        by_ty.setdefault(f['ty'], []).append(f)
    for T, fs in by_ty.items():
        u.add(f"impl {T} {{")
        for f in fs:
            u.add(stub_text(f))
        u.add("}")
    u.add("""
pub proof fn lemma_f2in(x: &Fq2) ensures f2in(x.v()) { ax_fq_range(x.c0); ax_fq_range(x.c1); }
pub proof fn lemma_f6in(x: &Fq6) ensures f6in(x.v()) { lemma_f2in(&x.c0); lemma_f2in(&x.c1); lemma_f2in(&x.c2); }
pub proof fn lemma_f12in(x: &Fq12) ensures f12in(x.v()) { lemma_f6in(&x.c0); lemma_f6in(&x.c1); }
""")
