"""Unit `mont`: the derive-generated Montgomery arithmetic of Fq (6 limbs) and Fr (4 limbs) (C08): mul_assign, square, mont_reduce,
into_repr, from_repr against integer-level contracts (real, fully unrolled bodies of ff_derive's expansion), and the lift of the
limb-level contracts to the field-value contracts (D_FQ) that every unit above the limb layer assumes."""
import re
from vx.unit import Unit, spec_text
from vx import weave
from vx.rs import AnchorLost
from vx.unit import Unit

W = 1 << 64
FIELDS = {'Fq': dict(mod='fq', repr='FqRepr', n=6), 'Fr': dict(mod='fr', repr='FrRepr', n=4)}


def hx(v):
    return hex(v) + 'int'


def poly(names, start=0):
    """sum names[j] * W^(start+j) as Verus text over ints"""
    return ' + '.join(f"{hx(W ** (start + j))} * ({nm} as int)" for j, nm in enumerate(names)) or '0int'


def limbs_of(src, mod, name):
    t = src.find_const(mod, name)
    return [int(x) for x in re.findall(r'(\d+)u64', t)]


def build(src, workdir):
    u = Unit('mont', src)
    u.rlimit = 200          # the long straight-line bodies (72 limb operations in Fq::mont_reduce) sit close to the default budget
    u.add("use vstd::arithmetic::div_mod::*;\nuse vstd::arithmetic::mul::*;")
    u.add(spec_text('mont.vrs'))
    for F, info in FIELDS.items():
        field(u, src, F, info)
    return u


def field(u, src, F, info):
    mod, R, n = info['mod'], info['repr'], info['n']
    q = sum(l << (64 * i) for i, l in enumerate(limbs_of(src, mod, 'MODULUS')))
    inv = int(re.search(r'(\d+)u64', src.find_const(mod, 'INV')).group(1))
    r2 = sum(l << (64 * i) for i, l in enumerate(limbs_of(src, mod, 'R2')))
    # closed-term side conditions of the proof (checked here with exact integers, and again by Verus `by(compute)` where stated)
    if (1 + inv * (q % W)) % W != 0:
        raise AnchorLost(f"{F}: INV is not -q^-1 mod 2^64")
    if r2 != pow(W, 2 * n, q):
        raise AnchorLost(f"{F}: R2 is not 2^(128 n) mod q")
    Wn = W ** n
    rinv = pow(Wn, -1, q)
    lo = F.lower()
    u.add(f"pub mod {lo}m {{\nuse vstd::prelude::*;\nuse vstd::arithmetic::div_mod::*;\nuse vstd::arithmetic::mul::*;\nuse super::*;")
    for name in (R, F):
        t = u.real_item(mod, 'struct', r'struct ' + name + r'\b', derive='Clone, Copy')
        t = re.sub(r'pub\((super|crate)\)', 'pub', t)
        t = re.sub(r'struct (Fr|Fq)\((F.Repr)\)', r'struct \1(pub \2)', t)
        u.add(t)
    for c in ('MODULUS', 'INV', 'R2', 'R'):
        u.add(re.sub(r'^(pub\s+)?const', 'pub const', u.real_const(mod, c)))
    limbs = [f"r.0[{i}]" for i in range(n)]
    u.add(f"""pub open spec fn QM() -> int {{ {hx(q)} }}
pub open spec fn WN() -> int {{ {hx(Wn)} }}
pub open spec fn RINV() -> int {{ {hx(rinv)} }}
#[verifier::opaque]
pub open spec fn lv(r: {R}) -> int {{ {poly(limbs)} }}
// the field value of an element in Montgomery form
pub open spec fn mv(x: {F}) -> int {{ (lv(x.0) * RINV()) % QM() }}
pub proof fn lemma_lv_range(r: {R}) ensures 0 <= lv(r) < WN() {{ reveal(lv); }}
pub proof fn lemma_qodd() ensures QM() % 2 == 1, QM() > 1 {{ assert(QM() % 2 == 1 && QM() > 1) by(compute); }}
pub proof fn lemma_consts() ensures lv(MODULUS) == QM(), (WN() * RINV()) % QM() == 1, (1 + (INV as int) * (MODULUS.0[0] as int)) % W64() == 0, lv(R2) == (WN() * WN()) % QM(), 0 < QM() < WN(), 2 * QM() < WN()
{{
    reveal(lv);
    assert(lv(MODULUS) == QM()) by(compute);
    assert((WN() * RINV()) % QM() == 1) by(compute);
    assert((1 + (INV as int) * (MODULUS.0[0] as int)) % W64() == 0) by(compute);
    assert(lv(R2) == (WN() * WN()) % QM()) by(compute);
}}
// the invariant of the inverse loop, kept opaque so that the loops never see modular arithmetic: b * a == u * R^2 (mod q)
#[verifier::opaque]
pub open spec fn inv_rel(bv: int, uv: int, la: int) -> bool {{ (bv * la) % QM() == (uv * lv(R2)) % QM() }}
pub proof fn lemma_rel_init(la: int) requires 0 <= la ensures inv_rel(lv(R2), la, la), inv_rel(0, QM(), la)
{{
    reveal(inv_rel); lemma_consts();
    assert(lv(R2) * la == la * lv(R2)) by(nonlinear_arith);
    assert(0 * la == 0); lemma_mod_multiples_basic(lv(R2), QM()); assert(QM() * lv(R2) == lv(R2) * QM()) by(nonlinear_arith); lemma_small_mod(0, QM() as nat);
}}
pub proof fn lemma_rel_half(b0: int, b2: int, u0: int, la: int) requires inv_rel(b0, u0, la), u0 % 2 == 0, 2 * b2 == b0 || 2 * b2 == b0 + QM() ensures inv_rel(b2, u0 / 2, la)
{{ reveal(inv_rel); lemma_qodd(); lemma_inv_half(b0, b2, u0, la, lv(R2), QM()); }}
pub proof fn lemma_rel_sub(b0: int, c: int, b2: int, u0: int, v: int, la: int, x: {F}, x0: {F}, y: {F})
    requires inv_rel(b0, u0, la), inv_rel(c, v, la), lv(x.0) == b2, lv(x0.0) == b0, lv(y.0) == c, 0 <= b2 < QM(), mv(x) == (mv(x0) - mv(y)) % QM() ensures inv_rel(b2, u0 - v, la)
{{ reveal(inv_rel); lemma_consts(); lemma_mv_back(b2, b0, c, QM(), WN(), RINV()); lemma_inv_sub(b0, c, b2, u0, v, la, lv(R2), QM()); }}
pub proof fn lemma_rel_done(bv: int, la: int, x: {F}, a: {F}) requires inv_rel(bv, 1, la), lv(x.0) == bv, lv(a.0) == la ensures (mv(x) * mv(a)) % QM() == 1
{{ reveal(inv_rel); lemma_consts(); lemma_qodd(); lemma_inv_done(bv, la, lv(R2), QM(), WN(), RINV()); }}
// limb-level contracts of the representation type (unit kani:limbs proves them on the compiled code for every limb value)
impl {R} {{
    #[verifier::external_body]
    pub fn lt(&self, other: &{R}) -> (ret: bool) ensures ret == (lv(*self) < lv(*other)) {{ unimplemented!() }}
    #[verifier::external_body]
    pub fn gt(&self, other: &{R}) -> (ret: bool) ensures ret == (lv(*self) > lv(*other)) {{ unimplemented!() }}
    #[verifier::external_body]
    pub fn eq(&self, other: &{R}) -> (ret: bool) ensures ret == (lv(*self) == lv(*other)) {{ unimplemented!() }}
    #[verifier::external_body]
    pub fn cmp(&self, other: &{R}) -> (ret: core::cmp::Ordering) ensures ret == (if lv(*self) < lv(*other) {{ core::cmp::Ordering::Less }} else if lv(*self) == lv(*other) {{ core::cmp::Ordering::Equal }} else {{ core::cmp::Ordering::Greater }}) {{ unimplemented!() }}
    #[verifier::external_body]
    pub fn sub_noborrow(&mut self, other: &{R}) requires lv(*old(self)) >= lv(*other) ensures lv(*final(self)) == lv(*old(self)) - lv(*other) {{ unimplemented!() }}
    #[verifier::external_body]
    pub fn add_nocarry(&mut self, other: &{R}) requires lv(*old(self)) + lv(*other) < WN() ensures lv(*final(self)) == lv(*old(self)) + lv(*other) {{ unimplemented!() }}
    #[verifier::external_body]
    pub fn mul2(&mut self) requires 2 * lv(*old(self)) < WN() ensures lv(*final(self)) == 2 * lv(*old(self)) {{ unimplemented!() }}
    #[verifier::external_body]
    pub fn is_zero(&self) -> (ret: bool) ensures ret == (lv(*self) == 0) {{ unimplemented!() }}
    #[verifier::external_body]
    pub fn is_even(&self) -> (ret: bool) ensures ret == (lv(*self) % 2 == 0) {{ unimplemented!() }}
    #[verifier::external_body]
    pub fn div2(&mut self) ensures lv(*final(self)) == lv(*old(self)) / 2 {{ unimplemented!() }}
    #[verifier::external_body]
    pub fn from(val: u64) -> (ret: {R}) ensures lv(ret) == val {{ unimplemented!() }}
}}
#[verifier::external_body]
pub fn repr_to_string(r: &{R}) -> (ret: String) {{ unimplemented!() }}
impl {F} {{""")
    # is_valid / reduce: real bodies (`self.0 < MODULUS` is the derived PartialOrd of the representation: written as the contracted lt)
    u.add(u.real_fn(mod, f'impl {F}', 'is_valid', "    ensures ret == (lv(self.0) < QM())", ret='ret', vis='pub',
                    body_edit=lambda b: cmp_rule(u, b).replace('{', '{ proof { lemma_consts(); }', 1)))
    u.add(u.real_fn(mod, f'impl {F}', 'reduce', "    requires lv(old(self).0) < 2 * QM()\n    ensures lv(final(self).0) < QM(), lv(final(self).0) % QM() == lv(old(self).0) % QM()", vis='pub',
                    body_edit=lambda b: b.replace('{', '{ proof { lemma_consts(); lemma_lv_range(self.0); lemma_reduce_mod(lv(self.0), QM()); }', 1)))
    u.add(u.real_fn(mod, f'impl {F}', 'mont_reduce',
                    f"    requires {poly([f'r{i}' for i in range(2 * n)])} < QM() * WN()\n"
                    f"    ensures lv(final(self).0) < QM(), (lv(final(self).0) * WN()) % QM() == ({poly([f'r{i}' for i in range(2 * n)])}) % QM()",
                    vis='pub', body_edit=lambda b: reduce_edit(u, b, n, q)))
    u.add(u.real_fn(mod, f're:impl\\s+::ff::Field\\s+for\\s+{F}\\b', 'mul_assign',
                    "    requires lv(old(self).0) < QM(), lv(other.0) < QM()\n"
                    "    ensures lv(final(self).0) < QM(), (lv(final(self).0) * WN()) % QM() == (lv(old(self).0) * lv(other.0)) % QM(), mv(*final(self)) == (mv(*old(self)) * mv(*other)) % QM()",
                    vis='pub', body_edit=lambda b: mul_edit(u, b, n)))
    u.add(u.real_fn(mod, f're:impl\\s+::ff::Field\\s+for\\s+{F}\\b', 'square',
                    "    requires lv(old(self).0) < QM()\n"
                    "    ensures lv(final(self).0) < QM(), (lv(final(self).0) * WN()) % QM() == (lv(old(self).0) * lv(old(self).0)) % QM(), mv(*final(self)) == (mv(*old(self)) * mv(*old(self))) % QM()",
                    vis='pub', body_edit=lambda b: square_edit(u, b, n)))
    FH = f're:impl\\s+::ff::Field\\s+for\\s+{F}\\b'
    PH = f're:impl\\s+::ff::PrimeField\\s+for\\s+{F}\\b'
    pre2 = "proof { lemma_consts(); lemma_lv_range(self.0); }"
    u.add(u.real_fn(mod, FH, 'zero', "    ensures lv(ret.0) == 0, mv(ret) == 0", ret='ret', vis='pub',
                    body_edit=lambda b: b.replace('{', '{ proof { lemma_consts(); }', 1), tail="proof { assert(0 * RINV() == 0); lemma_small_mod(0, QM() as nat); }"))
    u.add(u.real_fn(mod, FH, 'one', "    ensures lv(ret.0) < QM(), mv(ret) == 1", ret='ret', vis='pub',
                    tail="proof { reveal(lv); assert(lv(R) < QM() && (lv(R) * RINV()) % QM() == 1) by(compute); }"))
    u.add(u.real_fn(mod, FH, 'is_zero', "    requires lv(self.0) < QM()\n    ensures ret == (mv(*self) == 0)", ret='ret', vis='pub',
                    body_edit=lambda b: b.replace('{', '{ proof { lemma_consts(); lemma_lv_range(self.0); lemma_mv_zero(lv(self.0), QM(), WN(), RINV()); }', 1)))
    u.add(u.real_fn(mod, FH, 'add_assign', "    requires lv(old(self).0) < QM(), lv(other.0) < QM()\n    ensures lv(final(self).0) < QM(), mv(*final(self)) == (mv(*old(self)) + mv(*other)) % QM()", vis='pub',
                    body_edit=lambda b: b.replace('{', '{ ' + pre2 + ' proof { lemma_lv_range(other.0); } let ghost a_in = *self;', 1),
                    tail="proof { lemma_mv_lin(lv(self.0), lv(a_in.0), lv(other.0), 1, QM(), RINV()); }"))
    u.add(u.real_fn(mod, FH, 'double', "    requires lv(old(self).0) < QM()\n    ensures lv(final(self).0) < QM(), mv(*final(self)) == (mv(*old(self)) + mv(*old(self))) % QM()", vis='pub',
                    body_edit=lambda b: b.replace('{', '{ ' + pre2 + ' let ghost a_in = *self;', 1),
                    tail="proof { lemma_mv_lin(lv(self.0), lv(a_in.0), lv(a_in.0), 1, QM(), RINV()); }"))
    u.add(u.real_fn(mod, FH, 'sub_assign', "    requires lv(old(self).0) < QM(), lv(other.0) < QM()\n    ensures lv(final(self).0) < QM(), mv(*final(self)) == (mv(*old(self)) - mv(*other)) % QM()", vis='pub',
                    body_edit=lambda b: gt_rule(u, b).replace('{', '{ ' + pre2 + ' proof { lemma_lv_range(other.0); } let ghost a_in = *self;', 1),
                    tail="proof { let s = lv(self.0); let la = lv(a_in.0); let lb = lv(other.0); if lb > la { lemma_mod_sub_multiples_vanish(la + QM() - lb, QM()); } lemma_mv_lin(s, la, lb, -1, QM(), RINV()); }"))
    u.add(u.real_fn(mod, FH, 'negate', "    requires lv(old(self).0) < QM()\n    ensures lv(final(self).0) < QM(), mv(*final(self)) == (0 - mv(*old(self))) % QM()", vis='pub',
                    body_edit=lambda b: b.replace('{', '{ ' + pre2 + ' let ghost a_in = *self; proof { lemma_mv_zero(lv(self.0), QM(), WN(), RINV()); }', 1),
                    tail="proof { let s = lv(self.0); let la = lv(a_in.0); if la != 0 { lemma_mod_sub_multiples_vanish(QM() - la, QM()); } lemma_mv_lin(s, 0, la, -1, QM(), RINV()); assert(0 * RINV() == 0); lemma_small_mod(0, QM() as nat); }"))
    inv_inv = ("invariant 0 <= lv(b.0) < QM(), 0 <= lv(c.0) < QM(), 0 <= lv(u) < WN(), 0 <= lv(v) < WN(), lv(one) == 1, la == lv(self.0), la < QM(), 2 * QM() < WN(), QM() % 2 == 1, lv(MODULUS) == QM(),\n"
               "            inv_rel(lv(b.0), lv(u), la), inv_rel(lv(c.0), lv(v), la)")

    def inv_edit(b):
        b = b.replace('u != one && v != one', '!u.eq(&one) && !v.eq(&one)').replace('if v < u {', 'if v.lt(&u) {').replace('if u == one {', 'if u.eq(&one) {')
        u.rewrites['R16'] = u.rewrites.get('R16', 0) + 4
        b = weave.attach_loop_invariants(b, ["        " + inv_inv, "            " + inv_inv, "            " + inv_inv], u.rewrites)
        b = b.replace('let mut c = Self::zero();', 'let mut c = Self::zero(); let ghost la = lv(self.0); proof { lemma_consts(); lemma_qodd(); lemma_lv_range(self.0); lemma_lv_range(R2); lemma_rel_init(la); lemma_mod_bound(WN() * WN(), QM()); }', 1)
        for x, y in (('u', 'b'), ('v', 'c')):
            b = b.replace(f'{x}.div2();', f'let ghost {x}0 = lv({x}); let ghost {y}0 = lv({y}.0); {x}.div2();', 1)
            b = re.sub(r'(\} else \{ %s\.0\.add_nocarry\(&MODULUS\); %s\.0\.div2\(\); \})' % (y, y),
                       r'\1 proof { lemma_consts(); lemma_rel_half(%s0, lv(%s.0), %s0, la); }' % (y, y, x), b, count=1)
        b = b.replace('u.sub_noborrow(&v);', 'let ghost u0 = lv(u); let ghost bb0 = b; u.sub_noborrow(&v);', 1)
        b = b.replace('b.sub_assign(&c);', 'b.sub_assign(&c); proof { lemma_lv_range(b.0); lemma_rel_sub(lv(bb0.0), lv(c.0), lv(b.0), u0, lv(v), la, b, bb0, c); }', 1)
        b = b.replace('v.sub_noborrow(&u);', 'let ghost v0 = lv(v); let ghost cc0 = c; v.sub_noborrow(&u);', 1)
        b = b.replace('c.sub_assign(&b);', 'c.sub_assign(&b); proof { lemma_lv_range(c.0); lemma_rel_sub(lv(cc0.0), lv(b.0), lv(c.0), v0, lv(u), la, c, cc0, b); }', 1)
        b = b.replace('if u.eq(&one) {', 'proof { if lv(u) == 1 { lemma_rel_done(lv(b.0), la, b, *self); } if lv(v) == 1 { lemma_rel_done(lv(c.0), la, c, *self); } lemma_mv_zero(la, QM(), WN(), RINV()); } if u.eq(&one) {', 1)
        return b
    u.add(u.real_fn(mod, FH, 'inverse', "    requires lv(self.0) < QM()\n    ensures match ret { Some(y) => lv(y.0) < QM() && (mv(y) * mv(*self)) % QM() == 1 && mv(*self) != 0, None => mv(*self) == 0 }",
                    ret='ret', vis='pub', attrs='#[verifier::exec_allows_no_decreases_clause]\n', body_edit=inv_edit))
    # Field::pow: text from the ff registry source (generic default method), written out at this field with array exponents (R6)
    from units.ffdep import ff_source
    from vx import driver
    import os
    ffs, ver = ff_source(os.path.join(driver.REPO, 'Cargo.lock'))
    uu = Unit('ffpow', ffs)
    it_spec = dict(invariant=("        invariant {it}.n <= 64 * N, {it}.t == exp, lv(self.0) < QM(), lv(res.0) < QM(), QM() > 1,\n"
                              "            mv(res) == pw(mv(*self), {it}.val() / pow2({it}.n as nat), QM()), found_one == ({it}.val() / pow2({it}.n as nat) > 0), v0 == {it}.val(),\n"
                              "            !found_one ==> mv(res) == 1\n        ensures {it}.n == 0\n        decreases {it}.n"),
                   ghost_before="proof { lemma_qodd(); lemma_consts(); lemma_limbs_bound(exp@); lemma_small_div_m(limbs_val(exp@), pow2((64 * N) as nat)); lemma_pw_zero(mv(*self), QM()); } let ghost v0 = {it}.val();",
                   ghost_arm="proof { lemma_small_mod(1, QM() as nat); assert(1int * 1 == 1); }")

    def pow_edit(b):
        b = b.replace('BitIterator::new(exp)', 'BitIterator::<N>::new(exp)').replace('{', '{ hide(mv);', 1)
        b = weave.rewrite_for_iter(b, uu.rewrites, [it_spec])
        for k, v in uu.rewrites.items():
            u.rewrites[k] = u.rewrites.get(k, 0) + v
        # at the head of the arm: the prefix doubles and takes the bit in; at its end: the power follows
        b = re.sub(r'Some\(i\) => \{', 'Some(i) => { proof { lemma_div_step(v0, (it1.n + 1) as nat); lemma_pw_step(mv(*self), v0 / pow2((it1.n + 1) as nat), i, QM()); } let ghost r_in = res;', b, count=1)
        return b
    sig, body = uu.slice_fn('', 're:pub trait Field:', 'pow')
    # R24: an inherent `pow` on the field type would take over every `x.pow(..)` call site; it is then the text that must meet the contract
    pow_src, pow_at = (u, (mod, f're:^impl\\s+{F}\\b(?!.*\\bfor\\b)')) if u.src.inherent_fn(F, 'pow') is not None else (uu, ('', 're:pub trait Field:'))
    if pow_src is u:
        u.rewrites['R24'] = u.rewrites.get('R24', 0) + 1
    t = pow_src.real_fn(pow_at[0], pow_at[1], 'pow', "    requires lv(self.0) < QM()\n    ensures lv(ret.0) < QM(), mv(ret) == pw(mv(*self), limbs_val(exp@), QM())",
                   ret='ret', vis='pub', body_edit=pow_edit, tail="proof { assert(pow2(0) == 1); }",
                   sig_edit=lambda sg: re.sub(r'<S:\s*AsRef<\[u64\]>>', '<const N: usize>', sg).replace('exp: S', 'exp: [u64; N]'))
    u.functions.append(f"ff-zeroize-{ver}|trait Field|pow@{F}")
    u.add(t)
    SH = f're:impl\\s+::ff::SqrtField\\s+for\\s+{F}\\b'
    half = (q - 1) // 2

    def arr_fact(b, which, value):
        """after the `which`-th call of self.pow([lits]) state the value of the literal exponent (closed term, by(compute))"""
        ms = list(re.finditer(r'self\.pow\(\[([^\]]*)\]\);', b))
        if len(ms) <= which:
            raise AnchorLost('pow call with a literal exponent not found')
        m = ms[which]
        lits = ', '.join(x.strip() for x in m.group(1).split(','))
        fact = (f" proof {{ let e_ = [{lits}]; assert(e_@ =~= seq![{lits}]); assert(limbs_val(seq![{lits}]) == {hex(value)}nat) by(compute); }} ")
        return b[:m.end()] + fact + b[m.end():]

    def leg_edit(b):
        b = b.replace('::ff::LegendreSymbol', 'LegendreSymbol')
        n = b.count('s == Self::zero()') + b.count('s == Self::one()')
        if n != 2:
            raise AnchorLost('legendre: comparisons not found')
        u.rewrites['R16'] = u.rewrites.get('R16', 0) + 2
        b = b.replace('s == Self::zero()', 's.eq(&Self::zero())').replace('s == Self::one()', 's.eq(&Self::one())')
        return arr_fact(b, 0, half)
    u.add(u.real_fn(mod, SH, 'legendre', f"    requires lv(self.0) < QM()\n    ensures ret == leg_of(pw(mv(*self), {hex(half)}nat, QM()))", ret='ret', vis='pub',
                    body_edit=leg_edit, sig_edit=lambda sg: sg.replace('::ff::LegendreSymbol', 'LegendreSymbol')))
    if q % 4 == 3:
        e1 = (q - 3) // 4

        def sqrt_edit(b):
            m = re.search(r'a0\.0 ==\s*(' + R + r'\(\[[^\]]*\]\))', b)
            if not m:
                raise AnchorLost('sqrt: comparison with the representation of -1 not found')
            u.rewrites['R16'] = u.rewrites.get('R16', 0) + 1
            neg1 = m.group(1)
            b = b[:m.start()] + f"a0.0.eq(&{neg1})" + b[m.end():]
            b = arr_fact(b, 0, e1)
            # a0 = a1^2 x = x^((q-1)/2);  y = a1 x, y^2 = a0 x
            b = b.replace('a0.mul_assign(self);', f"""a0.mul_assign(self); proof {{ let x = mv(*self); lemma_qodd(); lemma_consts();
                lemma_pw_add(x, {hex(e1)}nat, {hex(e1)}nat, QM()); lemma_pw_add(x, {hex(2 * e1)}nat, 1, QM()); lemma_pw_one(x, QM());
                reveal(lv); assert(lv({neg1}) < QM() && (lv({neg1}) * RINV()) % QM() == QM() - 1) by(compute);
                lemma_lv_range(a0.0);
                if mv(a0) == QM() - 1 {{ lemma_mv_inj(lv(a0.0), lv({neg1}), QM(), WN(), RINV()); }} }} let ghost t0 = mv(a0); let ghost a1_in = a1;""", 1)
            b = b.replace('Some(a1)', f"""proof {{ let x = mv(*self); lemma_sqrt_sq(mv(a1_in), x, t0, mv(a1), QM()); }} Some(a1)""", 1)
            return b
        u.add(u.real_fn(mod, SH, 'sqrt', f"""    requires lv(self.0) < QM()
    ensures match ret {{
        // None exactly when x^((q-1)/2) == -1; otherwise y with y^2 == x * x^((q-1)/2)  (Euler's criterion, A8, turns this into `y^2 == x` resp. `x is not a square`)
        None => pw(mv(*self), {hex(half)}nat, QM()) == QM() - 1,
        Some(y) => lv(y.0) < QM() && pw(mv(*self), {hex(half)}nat, QM()) != QM() - 1 && (mv(y) * mv(y)) % QM() == (pw(mv(*self), {hex(half)}nat, QM()) * mv(*self)) % QM(),
    }}""", ret='ret', vis='pub', body_edit=sqrt_edit))
    u.add(u.real_fn(mod, PH, 'into_repr', "    requires lv(self.0) < QM()\n    ensures lv(ret) == mv(*self), lv(ret) < QM()", ret='ret', vis='pub',
                    body_edit=lambda b: b.replace('{', '{ ' + pre2 + ' proof { reveal(lv); }', 1).replace('r.0\n', 'proof { lemma_into_repr(lv(r.0), lv(self.0), QM(), WN(), RINV()); } r.0\n', 1)))
    u.add(u.real_fn(mod, PH, 'from_repr', "    ensures (lv(r) < QM()) == ret.is_ok(), ret.is_ok() ==> mv(ret.unwrap()) == lv(r) && lv(ret.unwrap().0) < QM()", ret='ret', vis='pub',
                    body_edit=lambda b: fmt_rule(u, b).replace('{', '{ proof { lemma_consts(); lemma_lv_range(r); lemma_lv_range(R2); } let ghost r_in = r;', 1)
                    .replace('Ok(r)', 'proof { lemma_from_repr(lv(r.0), lv(r_in), lv(R2), QM(), WN(), RINV()); } Ok(r)', 1)))
    u.add(u.real_fn(mod, f're:impl\\s+::std::cmp::PartialEq\\s+for\\s+{F}\\b', 'eq', "    requires lv(self.0) < QM(), lv(other.0) < QM()\n    ensures ret == (mv(*self) == mv(*other))", ret='ret', vis='pub',
                    body_edit=lambda b: eq_rule(u, b).replace('{', '{ proof { lemma_consts(); lemma_lv_range(self.0); lemma_lv_range(other.0); if mv(*self) == mv(*other) { lemma_mv_inj(lv(self.0), lv(other.0), QM(), WN(), RINV()); } }', 1)))
    u.add(u.real_fn(mod, f're:impl\\s+Ord\\s+for\\s+{F}\\b', 'cmp', "    requires lv(self.0) < QM(), lv(other.0) < QM()\n"
                    "    ensures ret == (if mv(*self) < mv(*other) { core::cmp::Ordering::Less } else if mv(*self) == mv(*other) { core::cmp::Ordering::Equal } else { core::cmp::Ordering::Greater })",
                    ret='ret', vis='pub', sig_edit=lambda sg: sg.replace('::std::cmp::Ordering', 'core::cmp::Ordering')))
    u.add("}")
    u.add("}")


def gt_rule(u, b):
    if 'other.0 > self.0' not in b:
        raise AnchorLost('sub_assign: comparison not found')
    u.rewrites['R16'] = u.rewrites.get('R16', 0) + 1
    return b.replace('other.0 > self.0', 'other.0.gt(&self.0)')


def eq_rule(u, b):
    if 'self.0 == other.0' not in b:
        raise AnchorLost('eq: comparison not found')
    u.rewrites['R16'] = u.rewrites.get('R16', 0) + 1
    return b.replace('self.0 == other.0', 'self.0.eq(&other.0)')


def fmt_rule(u, b):
    """R18: the error message `format!("{}", r.0)` (alloc::fmt machinery) is produced by an uninterpreted stub; only the text of the message is lost"""
    m = re.search(r'::alloc::__export::must_use\(\{\s*::alloc::fmt::format\(format_args!\("\{0\}", r\.0\)\)\s*\}\)', b)
    if not m:
        raise AnchorLost('from_repr: error message expression not found')
    u.rewrites['R18'] = u.rewrites.get('R18', 0) + 1
    return b[:m.start()] + 'repr_to_string(&r.0)' + b[m.end():]


def square_edit(u, b, n):
    """ghost checkpoints for the optimized squaring: off-diagonal products, doubling by one-bit shifts, diagonal squares"""
    b = ff_paths(u, b)
    A = [f"(self.0).0[{i}]" for i in range(n)]
    rows = list(re.finditer(r'let mut carry = 0;', b))
    if len(rows) != n:
        raise AnchorLost(f"square: expected {n} carry chains, found {len(rows)}")
    sh = re.search(r'let r%d = r%d >> 63;' % (2 * n - 1, 2 * n - 2), b)
    if not sh:
        raise AnchorLost("square: start of the doubling block not found")
    out, last = [], 0
    # phase A: rows 0..n-2
    for i in range(n - 1):
        m = rows[i]
        out.append(b[last:m.start()])
        if i > 0:
            out.append(sq_row_ck(i - 1, n, A))
        out.append(f" let ghost vb{i}: int = {poly([f'r{j}' for j in range(1, i + n)], 1) if i > 0 else '0int'}; ")
        last = m.start()
    out.append(b[last:sh.start()])
    out.append(sq_row_ck(n - 2, n, A))
    # phase B: doubling
    olds = ' '.join(f"let ghost s{j} = r{j};" for j in range(1, 2 * n - 1))
    out.append(f" let ghost voff: int = {poly([f'r{j}' for j in range(1, 2 * n - 1)], 1)}; {olds} ")
    c0 = rows[n - 1]
    out.append(b[sh.start():c0.start()])
    lem = ' '.join(f"lemma_shl1(s{j}, s{j - 1});" for j in range(2, 2 * n - 1))
    out.append(f" proof {{ {lem} lemma_shl1(s1, 0); lemma_shr63(s{2 * n - 2}); assert({poly([f'r{j}' for j in range(1, 2 * n)], 1)} == 2 * voff); }} "
               f" let ghost vdbl: int = {poly([f'r{j}' for j in range(1, 2 * n)], 1)}; ")
    # phase C: diagonal
    mm = re.search(r'self\.mont_reduce\(', b)
    out.append(b[c0.start():mm.start()])
    diag = ' + '.join(f"{hx(W ** (2 * i))} * (({A[i]} as int) * ({A[i]} as int))" for i in range(n))
    off = ' + '.join(f"{hx(W ** (i + j))} * (({A[i]} as int) * ({A[j]} as int))" for i in range(n) for j in range(i + 1, n))
    allr = poly([f'r{j}' for j in range(2 * n)])
    out.append(f" proof {{ lemma_consts(); reveal(lv); let la = lv(self.0);"
               f" assert({allr} + {hx(W ** (2 * n))} * (carry as int) == vdbl + ({diag}));"
               f" assert(voff == {off});"
               f" lemma_schoolbook{n}({', '.join(f'{a} as int' for a in A)}, {', '.join(f'{a} as int' for a in A)});"
               f" assert({allr} + {hx(W ** (2 * n))} * (carry as int) == la * la);"
               f" assert(la * la < QM() * WN()) by(nonlinear_arith) requires 0 <= la < QM(), QM() < WN();"
               f" assert(carry == 0) by {{ if carry >= 1 {{ assert({hx(W ** (2 * n))} * (carry as int) >= {hx(W ** (2 * n))}) by(nonlinear_arith) requires carry >= 1; }} }} }} let ghost a_in = *self; ")
    out.append(b[mm.start():])
    body = ''.join(out)
    return weave.insert_tail(body, " proof { lemma_mont_value(lv(self.0), lv(a_in.0), lv(a_in.0), QM(), WN(), RINV()); } ", unit_ret=True)


def sq_row_ck(i, n, A):
    terms = ' + '.join(f"{hx(W ** (i + j))} * (({A[i]} as int) * ({A[j]} as int))" for j in range(i + 1, n))
    cur = poly([f"r{j}" for j in range(1, i + n + 1)], 1)
    return f" proof {{ assert({cur} == vb{i} + ({terms})); }} "


def cmp_rule(u, b):
    """R16: `self.0 < MODULUS` on the representation type is its derived PartialOrd::lt; written as the contracted method"""
    if 'self.0 < MODULUS' not in b:
        raise AnchorLost('is_valid: comparison not found')
    u.rewrites['R16'] = u.rewrites.get('R16', 0) + 1
    return b.replace('self.0 < MODULUS', 'self.0.lt(&MODULUS)')


MAC = re.compile(r'(let\s+(?:mut\s+)?(r\d+)\s*=\s*|(r\d+)\s*=\s*|)::ff::(mac_with_carry|adc)\(([^;]*?)\);', re.S)


def ff_paths(u, b):
    n = b.count('::ff::mac_with_carry(') + b.count('::ff::adc(')
    u.rewrites['R17'] = u.rewrites.get('R17', 0) + n
    return b.replace('::ff::mac_with_carry(', 'mac_with_carry(').replace('::ff::adc(', 'adc(')


def reduce_edit(u, b, n, q):
    """ghost checkpoints for mont_reduce: after round i the value of the live limbs (plus the pending carry) has grown by k_i * W^i * q"""
    ql = [(q >> (64 * j)) & (W - 1) for j in range(n)]
    stmts = b
    rounds = list(re.finditer(r'let k = (r\d+)\.wrapping_mul\(INV\);', stmts))
    if len(rounds) != n:
        raise AnchorLost(f"mont_reduce: expected {n} rounds, found {len(rounds)}")
    out = []
    last = 0
    names = [f"r{i}" for i in range(2 * n)]
    # value before any round
    head = "{ proof { lemma_consts(); reveal(lv); } let ghost v0: int = " + poly(names) + "; let ghost mut acc: int = v0; let ghost mut c2: int = 0;"
    for i, m in enumerate(rounds):
        seg = stmts[last:m.start()]
        if i > 0:
            out.append(after_round(seg, i - 1, n, ql, names))
        else:
            out.append(seg)
        out.append(f" let ghost rb{i}: int = {poly(names[i:], i)} + c2 * {hx(W ** (i + n))}; ")
        last = m.start()
    tail = stmts[last:]
    # the last round ends where the limbs are stored
    mm = re.search(r'\(self\.0\)\.0\[0usize\]\s*=', tail)
    if not mm:
        raise AnchorLost("mont_reduce: store of the result limbs not found")
    out.append(after_round(tail[:mm.start()], n - 1, n, ql, names))
    fin = (f" proof {{ assert({poly(names[n:], n)} + c2 * {hx(W ** (2 * n))} == acc);"
           f" lemma_mont_bound(acc, v0, kq, QM(), WN());"
           f" assert(c2 == 0) by {{ if c2 >= 1 {{ assert(c2 * {hx(W ** (2 * n))} >= {hx(W ** (2 * n))}) by(nonlinear_arith) requires c2 >= 1; }} }}"
           f" assert(({poly(names[n:])}) * WN() == {poly(names[n:], n)}) by(nonlinear_arith) requires WN() == {hx(W ** n)};"
           f" lemma_mont_final({poly(names[n:])}, acc, v0, kq, QM(), WN()); }} ")
    rest = tail[mm.start():]
    rest = rest.replace('self.reduce();', f"proof {{ reveal(lv); assert(lv(self.0) == {poly(names[n:])}); }} self.reduce(); proof {{ lemma_mont_result(lv(self.0), {poly(names[n:])}, v0, kq, QM(), WN()); }}", 1)
    out.append(fin + rest)
    body = ''.join(out)
    body = body.replace('{', head + " let ghost mut kq: int = 0;", 1)
    return ff_paths(u, body)


def after_round(seg, i, n, ql, names):
    """seg = text of round i (from `let k = ...` up to the next round); append the checkpoint"""
    kq = ' + '.join(f"{hx(ql[j] * W ** (i + j))} * (k as int)" for j in range(n))
    qv = sum(ql[j] << (64 * j) for j in range(n))
    # capture the limb that k was computed from before it is consumed
    seg = re.sub(r'(let k = (r\d+)\.wrapping_mul\(INV\);)', r'proof { assert(rb%d == acc); } let ghost rin%d = \2; \1 proof { lemma_mont_k(rin%d, k, INV, MODULUS.0[0]); }' % (i, i, i), seg, count=1)
    # the carry of the final adc of the round becomes the pending carry
    seg = seg + (f" proof {{ c2 = carry as int;"
                 f" assert({poly(names[i + 1:], i + 1)} + c2 * {hx(W ** (i + 1 + n))} == rb{i} + ({kq}));"
                 f" assert(({kq}) == ({hx(W ** i)} * (k as int)) * QM()) by(nonlinear_arith) requires QM() == {hx(qv)};"
                 f" let kq0 = kq; acc = acc + ({kq}); kq = kq + {hx(W ** i)} * (k as int);"
                 f" assert(kq * QM() == kq0 * QM() + ({hx(W ** i)} * (k as int)) * QM()) by(nonlinear_arith) requires kq == kq0 + {hx(W ** i)} * (k as int);"
                 f" assert(acc == v0 + kq * QM()); assert(0 <= kq < {hx(W ** (i + 1))}); }} ")
    return seg


def mul_edit(u, b, n):
    """ghost checkpoints for the schoolbook product: after row i the live limbs hold (a_0 + ... + a_i W^i) * b"""
    b = ff_paths(u, b)
    rows = list(re.finditer(r'let mut carry = 0;', b))
    if len(rows) != n:
        raise AnchorLost(f"mul_assign: expected {n} rows, found {len(rows)}")
    A = [f"(self.0).0[{i}]" for i in range(n)]
    B = [f"(other.0).0[{j}]" for j in range(n)]
    out, last = [], 0
    for i, m in enumerate(rows):
        out.append(b[last:m.start()])
        if i > 0:
            out.append(row_ck(i - 1, n, A, B))
        live = [f"r{j}" for j in range(i, i + n)] if i > 0 else []
        out.append(f" let ghost vb{i}: int = {poly([f'r{j}' for j in range(0, i + n)] if i > 0 else [])}; ")
        last = m.start()
    tail = b[last:]
    mm = re.search(r'self\.mont_reduce\(', tail)
    if not mm:
        raise AnchorLost("mul_assign: call of mont_reduce not found")
    out.append(tail[:mm.start()])
    out.append(row_ck(n - 1, n, A, B))
    prod = ' + '.join(f"{hx(W ** i)} * ({' + '.join(f'{hx(W ** j)} * (({A[i]} as int) * ({B[j]} as int))' for j in range(n))})" for i in range(n))
    out.append(f" proof {{ lemma_consts(); reveal(lv); let la = lv(self.0); let lb = lv(other.0);"
               f" lemma_schoolbook{n}({', '.join(f'{a} as int' for a in A)}, {', '.join(f'{x} as int' for x in B)});"
               f" assert({poly([f'r{j}' for j in range(2 * n)])} == la * lb);"
               f" assert(la * lb < QM() * WN()) by(nonlinear_arith) requires 0 <= la < QM(), 0 <= lb < QM(), QM() < WN(); }} let ghost a_in = *self; ")
    out.append(tail[mm.start():])
    body = ''.join(out)
    # the value-level statement
    body = weave.insert_tail(body, " proof { lemma_mont_value(lv(self.0), lv(a_in.0), lv(other.0), QM(), WN(), RINV()); } ", unit_ret=True)
    return body


def row_ck(i, n, A, B):
    terms = ' + '.join(f"{hx(W ** (i + j))} * (({A[i]} as int) * ({B[j]} as int))" for j in range(n))
    cur = poly([f"r{j}" for j in range(0, i + n + 1)])
    return f" proof {{ assert({cur} == vb{i} + ({terms})); }} "
