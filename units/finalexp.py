"""Unit `finalexp`: Bls12::final_exponentiation raises every non-zero f to 3(q^12-1)/r (C12).
Exponent tracking against f12pow (specs/f12pow.vrs); Fq12 operations enter through the contracts of unit `tower`."""
import re
from vx.unit import Unit, spec_text
from vx import weave, track
from vx.rs import Source
from units.tower import tower_env

Q = 0x1a0111ea397fe69a4b1ba7b6434bacd764774b84f38512bf6730d2a0f6b0f6241eabfffeb153ffffb9feffffffffaaab
R = 0x73eda753299d7d483339d80809a1d80553bda402fffe5bfeffffffff00000001
N = Q ** 12 - 1
TARGET = 3 * N // R


def hexi(k):
    return hex(k) + 'int' if k >= 0 else '(0int - ' + hex(-k) + 'int)'


def build(src, workdir):
    u = Unit('finalexp', src)
    u.add("pub mod spec {\nuse vstd::prelude::*;\nuse vstd::arithmetic::div_mod::*;\n")
    tower_env(u, opaque='all')   # hide the tower definitions: this unit reasons with the laws of f12pow only
    # the pieces of specs/mont.vrs that Field::pow needs (bit prefix of the exponent, ff's BitIterator contract proved in unit ffdep)
    u.add("\n".join(re.findall(r'// <<bitpow[^\n]*\n(.*?)// bitpow>>', spec_text('mont.vrs'), flags=re.S)))
    u.add(spec_text('f12pow.vrs'))
    u.add("} // mod spec\npub mod code {\nuse vstd::prelude::*;\nuse super::spec::*;\nbroadcast use f12pow_axioms;\n")
    # Field::pow (ff's generic default method, text from the registry source pinned by Cargo.lock) at Fq12 with a one-limb exponent,
    # the instance final_exponentiation's exp_by_x calls: f.pow(&[x])
    from units.ffdep import ff_source
    from vx import driver
    import os
    ffs, ver = ff_source(os.path.join(driver.REPO, 'Cargo.lock'))
    uu = Unit('ffpow12', ffs)
    it_spec = dict(invariant=("        invariant {it}.n <= 64, {it}.t == *exp, v0 == {it}.val(),\n"
                              "            res.v() == f12pow(self.v(), ({it}.val() / pow2({it}.n as nat)) as int), found_one == ({it}.val() / pow2({it}.n as nat) > 0)\n"
                              "        ensures {it}.n == 0\n        decreases {it}.n"),
                   ghost_before="proof { lemma_limbs_bound(exp@); lemma_small_div_m(limbs_val(exp@), pow2(64)); ax_f12pow_zero(self.v()); } let ghost v0 = {it}.val();",
                   ghost_arm="")

    def pow_edit(b):
        b = b.replace('BitIterator::new(exp)', 'BitIterator::<1>::new(*exp)')
        b = weave.rewrite_for_iter(b, uu.rewrites, [it_spec])
        for k, v in uu.rewrites.items():
            u.rewrites[k] = u.rewrites.get(k, 0) + v
        b = re.sub(r'Some\(i\) => \{', 'Some(i) => { proof { lemma_div_step(v0, (it1.n + 1) as nat); ax_f12pow_zero(self.v()); '
                   'assert(f12pow(self.v(), 1) == self.v()); } let ghost pre = v0 / pow2((it1.n + 1) as nat);', b, count=1)
        return b
    u.add("impl Fq12 {")
    # R24: an inherent `pow` on Fq12 would take over the call `f.pow(&[x])`; it is then the text that must meet the contract
    pow_src, pow_at = (u, ('fq12', r're:^impl\s+Fq12\b(?!.*\bfor\b)')) if u.src.inherent_fn('Fq12', 'pow') is not None else (uu, ('', 're:pub trait Field:'))
    if pow_src is u:
        u.rewrites['R24'] = u.rewrites.get('R24', 0) + 1
    u.add(pow_src.real_fn(pow_at[0], pow_at[1], 'pow', "    ensures ret.v() == f12pow(self.v(), exp[0] as int)",
                     ret='ret', vis='pub', body_edit=pow_edit,
                     tail="proof { assert(pow2(0) == 1); reveal_with_fuel(limbs_val, 2); assert(exp@.subrange(1, 1).len() == 0); }",
                     sig_edit=lambda sg: re.sub(r'<S:\s*AsRef<\[u64\]>>', '', sg).replace('exp: S', 'exp: &[u64; 1]').replace('-> Self', '-> Fq12')))
    u.add("}")
    u.functions.append(f"ff-zeroize-{ver}|trait Field|pow@Fq12")
    for k, v in getattr(uu, 'canaries', {}).items():
        u.canaries = getattr(u, 'canaries', {})
        u.canaries[k] = v
    u.add(u.real_const('bls12_381', 'BLS_X'))
    u.add(u.real_const('bls12_381', 'BLS_X_IS_NEGATIVE'))
    bls_x = int(re.search(r'=\s*(0x[0-9a-fA-F_]+|\d+)', u.real_const('bls12_381', 'BLS_X')).group(1).replace('_', ''), 0)
    neg = 'true' in u.real_const('bls12_381', 'BLS_X_IS_NEGATIVE')

    tr_ref = [None]

    def exp_by_x_handler(args, env, ints, name):
        if len(args) != 2:
            return None
        y = name(args[0])
        xv = ints.get(args[1].strip())
        if y is None or xv is None or env.get(y) is None:
            if y:
                env[y] = None
            return None
        k0 = env[y] * xv
        tr_ref[0].extra.append(f" proof {{ ax_f12pow_pow(base, {hexi(env[y])}, {hex(xv)}int); }} ")
        k = tr_ref[0].norm(k0 * (Q ** 6 if neg else 1))
        return y, k, None

    def edit(body):
        # nested fn exp_by_x: weave its contract
        m = re.search(r'fn exp_by_x\(f: &mut Fq12, x: u64\)\s*\{', body)
        if not m:
            raise weave.AnchorLost("anchor lost: nested fn exp_by_x")
        post = "f12conj(f12pow(old(f).v(), x as int))" if neg else "f12pow(old(f).v(), x as int)"
        body = body[:m.end() - 1] + f"\n    ensures final(f).v() == {post}\n" + body[m.end() - 1:]
        tr = track.Tracker('base', lambda k: f"f12pow(base, {hexi(k)})", double='square', add='mul_assign', sub='__none__',
                           scale_ops={'conjugate': Q ** 6}, argscale_ops={'frobenius_map': lambda k: Q ** k},
                           call_handlers={'exp_by_x': exp_by_x_handler}, mul_lemma=None, modulus=None)
        tr_ref[0] = tr
        tr.reduce_hint = lambda k, r: (f" proof {{ assert(({hex(k) if k >= 0 else '(0int - ' + hex(-k) + 'int)'}{'int' if k >= 0 else ''} - {hex(r)}int) % QQ12M1() == 0) by(compute); "
                                       f"ax_f12pow_mod(base, {hex(k) + 'int' if k >= 0 else '(0int - ' + hex(-k) + 'int)'}, {hex(r)}int); }} ")
        body = tr.run(body, {'r': 1}, 'v()')
        # the Some arm
        src = Source(body)
        ma = re.search(r'Some\(mut f2\)\s*=>\s*\{', body)
        if not ma:
            raise weave.AnchorLost("anchor lost: Some(mut f2) arm")
        bo = ma.end() - 1
        bc = src.match_close(bo)
        arm = body[bo:bc + 1]
        tr.ints = {}
        mi = re.search(r'let\s+mut\s+([A-Za-z_]\w*)\s*=\s*BLS_X\s*;', arm)
        if mi:
            tr.ints[mi.group(1)] = bls_x
        env0 = {'r': 1, 'f1': Q ** 6, 'f2': -1}
        arm2 = tr.run(arm, env0, 'v()')
        arm2 = arm2.replace('{', '{ proof { ax_f12_inverse_unique(base, f2.v()); assert(f1.v() == f12pow(base, ' + hex(Q ** 6) + 'int)); }', 1)
        # closing: reduce the tracked exponent modulo q^12 - 1 (A7)
        kfin = tr.last_env.get('y1') if hasattr(tr, 'last_env') else None
        body = body[:bo] + arm2 + body[bc + 1:]
        if kfin is not None:
            closing = (f" proof {{ assert(({hexi(kfin)} - {hex(TARGET)}int) % QQ12M1() == 0) by(compute); "
                       f"ax_f12pow_mod(base, {hexi(kfin)}, {hex(TARGET)}int); }} ")
            body = weave.insert_at(body, r'Some\(y1\)', closing, 'before')
        return body.replace('{', '{ let ghost base = r.v(); proof { assert(f12pow(base, 1) == base); }', 1)

    contract = (f"    ensures match ret {{ Some(y) => r.v() != f12zero() && y.v() == f12pow(r.v(), {hex(TARGET)}int), None => r.v() == f12zero() }}")
    u.add(u.real_fn('bls12_381', 'impl Engine for Bls12', 'final_exponentiation', contract, body_edit=edit))
    u.close = "} // mod code\n"
    return u
