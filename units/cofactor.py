"""Unit `cofactor`: chain_z, chain_h2_eff, G1/G2::clear_h against the abstract group (C17).
Scalar tracking: every point is smul(k, P); Z3 folds the literal scalars through the group axioms; loops get the
uniform doubling invariant pt == smul(2^i, entry value)."""
import re
from vx.unit import Unit, spec_text
from vx import weave, track

Z = 0xd201000000010000
H1EFF = 0xd201000000010001
H2EFF = 0xbc69f08f2ee75b3584c6a0ea91b352888e2a8e9145ad7689986ff031508ffe1329c2f178731db956d82bf015d1212b02ec0ec69d7477c1ae954cbc06689f6a359894c0adebbf6b4e8020005aaa95551


def env_text(u, with_points=True, group='group_axioms'):
    """shared environment of the group-level units"""
    u.add(spec_text('group.vrs'))
    u.add(f"pub mod code {{\nuse vstd::prelude::*;\nuse super::grp::*;\nbroadcast use {group};\n")
    from units.tower import tower_env
    tower_env(u, opaque='all')
    u.add(spec_text('curve_traits.vrs'))
    if with_points:
        for mod, name in (('g1', 'G1Affine'), ('g1', 'G1'), ('g2', 'G2Affine'), ('g2', 'G2')):
            t = u.real_item(mod, 'struct', r'struct ' + name + r'\b', derive='Clone, Copy')
            u.add(re.sub(r'pub\((super|crate)\)', 'pub', t))
        u.add(spec_text('points.vrs'))
    u.close = "} // mod code\n"


def dbl_inv(x, idx, g):
    return f"{x}.pt() == smul(pow2({idx} as nat) as int, {g})"


def build(src, workdir):
    u = Unit('cofactor', src)
    env_text(u)

    def edit(body):
        tr = track.Tracker('tmpvar0.pt()', lambda k: f"smul({k}int, tmpvar0.pt())", calls={'chain_z': Z})
        body = tr.run(body, {'tmpvar0': 1}, 'pt()')
        body = weave.weave_power_loops(body, 'double', 'pt()', dbl_inv, u.rewrites)
        # make smul(1, P) available to the matcher
        return body.replace('{', '{ proof { assert(smul(1, tmpvar0.pt()) == tmpvar0.pt()); }', 1)
    u.add(u.real_fn('cofactor', '', 'chain_z',
                    f"    ensures final(tmpvar1).pt() == smul({Z}int, tmpvar0.pt())", body_edit=edit))
    u.add(u.real_fn('cofactor', '', 'chain_h2_eff',
                    f"    ensures final(tmpvar1).pt() == smul({H2EFF}int, tmpvar0.pt())", body_edit=edit))
    u.add("impl G1 {")
    u.add(u.real_fn('cofactor', 'impl ClearH for G1', 'clear_h',
                    f"    ensures final(self).pt() == smul({H1EFF}int, old(self).pt())", vis='pub',
                    body_edit=lambda b: b.replace('{', '{ proof { assert(smul(1, self.pt()) == self.pt()); }', 1)))
    u.add("}")
    u.add("impl G2 {")
    u.add(u.real_fn('cofactor', 'impl ClearH for G2', 'clear_h',
                    f"    ensures final(self).pt() == smul({H2EFF}int, old(self).pt())", vis='pub'))
    u.add("}")
    return u
