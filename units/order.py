"""Unit `order`: sgn0, orderings, Legendre symbol, point recovery from x (C18, and the sign/ordering facts C04/C05/C15 use)."""
import re
from vx.unit import Unit, spec_text
from vx import weave
from units.cofactor import env_text


Q = 0x1a0111ea397fe69a4b1ba7b6434bacd764774b84f38512bf6730d2a0f6b0f6241eabfffeb153ffffb9feffffffffaaab


def build(src, workdir):
    u = Unit('order', src)
    env_text(u)
    u.add("use vstd::arithmetic::div_mod::*;\nuse vstd::arithmetic::mul::*;")
    u.add(spec_text('bits.vrs'))
    u.add(spec_text('affine.vrs'))
    u.add(spec_text('order.vrs'))
    u.add(u.real_item('signum', 'enum', r'enum Sgn0Result\b', derive='Clone, Copy'))
    u.add("""impl vstd::std_specs::cmp::PartialEqSpecImpl for Sgn0Result {
    open spec fn obeys_eq_spec() -> bool { true }
    open spec fn eq_spec(&self, other: &Sgn0Result) -> bool { *self == *other }
}
impl PartialEq for Sgn0Result {
    // derived PartialEq (compares discriminants through a compiler intrinsic): structural equality, assumed
    #[verifier::external_body]
    fn eq(&self, other: &Sgn0Result) -> (r: bool) ensures r == (*self == *other) { unimplemented!() }
}
pub open spec fn sgn_neg(s: Sgn0Result) -> bool { s == Sgn0Result::Negative }
pub proof fn lemma_limb0_parity(s: Seq<u64>) requires s.len() > 0 ensures limbs_val(s) % 2 == (s[0] as nat) % 2
{
    let t = s.subrange(1, s.len() as int);
    let b: nat = 0x1_0000_0000_0000_0000;
    assert((b * limbs_val(t)) % 2 == 0) by(nonlinear_arith) requires b == 0x1_0000_0000_0000_0000;
    assert(limbs_val(s) == (s[0] as nat) + b * limbs_val(t));
    assert(((s[0] as nat) + b * limbs_val(t)) % 2 == (s[0] as nat) % 2) by(nonlinear_arith) requires (b * limbs_val(t)) % 2 == 0;
}
""")
    u.add('''pub open spec fn sgn_xor(a: Sgn0Result, b: Sgn0Result) -> Sgn0Result { if a == b { Sgn0Result::NonNegative } else { Sgn0Result::Negative } }
impl vstd::std_specs::ops::BitXorSpecImpl for Sgn0Result {
    open spec fn obeys_bitxor_spec() -> bool { true }
    open spec fn bitxor_req(self, rhs: Sgn0Result) -> bool { true }
    open spec fn bitxor_spec(self, rhs: Sgn0Result) -> Sgn0Result { sgn_xor(self, rhs) }
}
impl core::ops::BitXor for Sgn0Result {
    type Output = Self;''')
    u.add(u.real_fn('signum', 'impl BitXor for Sgn0Result', 'bitxor', "    ensures ret == sgn_xor(self, rhs)"))
    u.add("}")
    u.add("impl Fq {")
    u.add(u.real_fn('fq', 'impl Signum0 for Fq', 'sgn0', "    ensures sgn_neg(ret) == sgn0_1(self.v())", vis='pub',
                    body_edit=lambda b: b.replace('{', '{ proof { assert forall|r: FqRepr| #[trigger] limbs_val(r.0@) % 2 == (r.0@[0] as nat) % 2 by { lemma_limb0_parity(r.0@); } '
                                                  'assert forall|x: u64| (#[trigger] (x & 1) == 1) == (x % 2 == 1) by { assert((x & 1 == 1) == (x % 2 == 1)) by(bit_vector); } } ', 1)))
    u.add(u.real_fn('', 're:^pub trait Signum0\\b', 'negate_if', "    ensures final(self).v() == (if sgn_neg(sgn) { fneg(old(self).v()) } else { old(self).v() })", vis='pub'))
    u.add("}")
    QM3D4 = (Q - 3) // 4
    QM1D2 = (Q - 1) // 2
    u.add(f"""impl AsRefU64 for [u64; 6] {{ open spec fn limbs(&self) -> Seq<u64> {{ self@ }} }}
// x^e in Fq2 by the defining recursion
#[verifier::opaque]
pub open spec fn f2pow(x: F2, e: int) -> F2 decreases e {{ if e <= 0 {{ f2one() }} else {{ f2mul(f2pow(x, e - 1), x) }} }}
// ring laws of the schoolbook product (proved from the definitions; % Q() is removed with vstd's modular lemmas, the rest is a polynomial identity)
pub proof fn ax_f2mul_comm(a: F2, b: F2) ensures f2mul(a, b) == f2mul(b, a)
{{
    reveal(f2mul);
    assert(a.c0 * b.c0 == b.c0 * a.c0) by(nonlinear_arith); assert(a.c1 * b.c1 == b.c1 * a.c1) by(nonlinear_arith);
    assert(a.c0 * b.c1 == b.c1 * a.c0) by(nonlinear_arith); assert(a.c1 * b.c0 == b.c0 * a.c1) by(nonlinear_arith);
}}
// one coordinate of a product of a product: ((x % q) * c - (y % q) * d) % q == (x c - y d) % q, and the same with +
pub proof fn lemma_mod_strip(x: int, c: int, y: int, d: int, q: int, sg: int) requires q > 0, sg == 1 || sg == -1
    ensures (((x % q) * c) % q + sg * (((y % q) * d) % q)) % q == (x * c + sg * (y * d)) % q
{{
    let u1 = (x % q) * c; let v1 = (y % q) * d; let u2 = x * c; let v2 = y * d;
    lemma_mul_mod_noop_left(x, c, q); lemma_mul_mod_noop_left(y, d, q);
    assert(u1 % q == u2 % q); assert(v1 % q == v2 % q);
    if sg == 1 {{
        lemma_add_mod_noop(u1, v1, q); lemma_add_mod_noop(u2, v2, q);
        assert((u1 % q + 1 * (v1 % q)) % q == ((u1 % q) + (v1 % q)) % q);
        assert((u2 + 1 * v2) % q == (u2 + v2) % q);
    }} else {{
        lemma_sub_mod_noop(u1, v1, q); lemma_sub_mod_noop(u2, v2, q);
        assert((u1 % q + (-1) * (v1 % q)) % q == ((u1 % q) - (v1 % q)) % q);
        assert((u2 + (-1) * v2) % q == (u2 - v2) % q);
    }}
}}
pub proof fn lemma_rot(x: int, y: int, z: int) ensures (y * z) * x == (x * y) * z {{ assert((y * z) * x == (x * y) * z) by(nonlinear_arith); }}
pub proof fn lemma_assoc_poly(a0: int, a1: int, b0: int, b1: int, c0: int, c1: int)
    ensures (a0 * b0 - a1 * b1) * c0 - (a0 * b1 + a1 * b0) * c1 == (b0 * c0 - b1 * c1) * a0 - (b0 * c1 + b1 * c0) * a1,
            (a0 * b0 - a1 * b1) * c1 + (a0 * b1 + a1 * b0) * c0 == (b0 * c1 + b1 * c0) * a0 + (b0 * c0 - b1 * c1) * a1
{{
    // every side is expanded into the eight monomials (a_i b_j) c_k with vstd's distributivity lemmas; the monomials are matched by lemma_rot
    lemma_mul_is_distributive_sub_other_way(c0, a0 * b0, a1 * b1); lemma_mul_is_distributive_add_other_way(c1, a0 * b1, a1 * b0);
    lemma_mul_is_distributive_sub_other_way(c1, a0 * b0, a1 * b1); lemma_mul_is_distributive_add_other_way(c0, a0 * b1, a1 * b0);
    lemma_mul_is_distributive_sub_other_way(a0, b0 * c0, b1 * c1); lemma_mul_is_distributive_add_other_way(a1, b0 * c1, b1 * c0);
    lemma_mul_is_distributive_add_other_way(a0, b0 * c1, b1 * c0); lemma_mul_is_distributive_sub_other_way(a1, b0 * c0, b1 * c1);
    lemma_rot(a0, b0, c0); lemma_rot(a0, b1, c1); lemma_rot(a1, b0, c1); lemma_rot(a1, b1, c0);
    lemma_rot(a0, b0, c1); lemma_rot(a0, b1, c0); lemma_rot(a1, b0, c0); lemma_rot(a1, b1, c1);
}}
pub proof fn ax_f2mul_assoc(a: F2, b: F2, c: F2) ensures f2mul(f2mul(a, b), c) == f2mul(a, f2mul(b, c))
{{
    reveal(f2mul); ax_q_pos();
    let q = Q();
    let (a0, a1, b0, b1, c0, c1) = (a.c0, a.c1, b.c0, b.c1, c.c0, c.c1);
    // p = a b, r = b c (before reduction of the coordinates)
    let p0 = a0 * b0 - a1 * b1; let p1 = a0 * b1 + a1 * b0;
    let r0 = b0 * c0 - b1 * c1; let r1 = b0 * c1 + b1 * c0;
    lemma_sub_mod_noop(a0 * b0, a1 * b1, q); lemma_add_mod_noop(a0 * b1, a1 * b0, q);
    lemma_sub_mod_noop(b0 * c0, b1 * c1, q); lemma_add_mod_noop(b0 * c1, b1 * c0, q);
    // left: ((p0 % q) c0 - (p1 % q) c1) % q , ((p0 % q) c1 + (p1 % q) c0) % q
    lemma_mod_strip(p0, c0, p1, c1, q, -1); lemma_mod_strip(p0, c1, p1, c0, q, 1);
    // right: (a0 (r0 % q) - a1 (r1 % q)) % q , (a0 (r1 % q) + a1 (r0 % q)) % q
    lemma_mod_strip(r0, a0, r1, a1, q, -1); lemma_mod_strip(r1, a0, r0, a1, q, 1);
    assert((r0 % q) * a0 == a0 * (r0 % q)) by(nonlinear_arith); assert((r1 % q) * a1 == a1 * (r1 % q)) by(nonlinear_arith);
    assert((r1 % q) * a0 == a0 * (r1 % q)) by(nonlinear_arith); assert((r0 % q) * a1 == a1 * (r0 % q)) by(nonlinear_arith);
    lemma_assoc_poly(a0, a1, b0, b1, c0, c1);
    assert(p0 * c0 + (-1) * (p1 * c1) == p0 * c0 - p1 * c1); assert(r0 * a0 + (-1) * (r1 * a1) == r0 * a0 - r1 * a1);
    assert(p0 * c1 + 1 * (p1 * c0) == p0 * c1 + p1 * c0); assert(r1 * a0 + 1 * (r0 * a1) == r1 * a0 + r0 * a1);
    // unfold the four fsub / fadd / fmul layers into the shapes above
    lemma_sub_mod_noop((p0 % q) * c0, (p1 % q) * c1, q); lemma_add_mod_noop((p0 % q) * c1, (p1 % q) * c0, q);
    lemma_sub_mod_noop(a0 * (r0 % q), a1 * (r1 % q), q); lemma_add_mod_noop(a0 * (r1 % q), a1 * (r0 % q), q);
}}
pub proof fn ax_f2mul_one(a: F2) requires f2in(a) ensures f2mul(a, f2one()) == a, f2mul(f2one(), a) == a
{{
    reveal(f2mul); reveal(f2one); ax_q_pos();
    assert(a.c0 * 1 == a.c0 && a.c1 * 0 == 0 && a.c0 * 0 == 0 && a.c1 * 1 == a.c1 && 1 * a.c0 == a.c0 && 0 * a.c1 == 0 && 1 * a.c1 == a.c1 && 0 * a.c0 == 0);
    lemma_small_mod(a.c0 as nat, Q() as nat); lemma_small_mod(a.c1 as nat, Q() as nat); lemma_small_mod(0, Q() as nat);
}}
pub proof fn ax_f2mul_neg1(a: F2) requires f2in(a) ensures f2mul(a, f2neg(f2one())) == f2neg(a), f2mul(f2neg(f2one()), a) == f2neg(a), f2neg(f2neg(a)) == a, f2in(f2neg(a))
{{
    reveal(f2mul); reveal(f2one); reveal(f2neg); ax_q_pos();
    let q = Q(); let m1 = fneg(1);
    lemma_fneg_val(0); lemma_fneg_val(1); lemma_fneg_val(a.c0); lemma_fneg_val(a.c1); lemma_fneg_val(fneg(a.c0)); lemma_fneg_val(fneg(a.c1));
    assert(m1 == q - 1);
    // a.c0 * (q-1) % q == (-a.c0) % q
    assert(a.c0 * (q - 1) == q * a.c0 + (0 - a.c0)) by(nonlinear_arith); assert(a.c1 * (q - 1) == q * a.c1 + (0 - a.c1)) by(nonlinear_arith);
    lemma_mod_multiples_vanish(a.c0, 0 - a.c0, q); lemma_mod_multiples_vanish(a.c1, 0 - a.c1, q);
    assert((q - 1) * a.c0 == a.c0 * (q - 1)) by(nonlinear_arith); assert((q - 1) * a.c1 == a.c1 * (q - 1)) by(nonlinear_arith);
    assert(a.c1 * 0 == 0 && a.c0 * 0 == 0 && 0 * a.c1 == 0 && 0 * a.c0 == 0);
    lemma_small_mod(0, q as nat);
    let n0 = (0 - a.c0) % q; let n1 = (0 - a.c1) % q;
    lemma_mod_bound(0 - a.c0, q); lemma_mod_bound(0 - a.c1, q);
    lemma_small_mod(n0 as nat, q as nat); lemma_small_mod(n1 as nat, q as nat);
    assert(n0 - 0 == n0 && n1 + 0 == n1 && 0 + n1 == n1);
}}
pub proof fn ax_u_squared() ensures f2mul(f2(0, 1), f2(0, 1)) == f2neg(f2one())
{{
    reveal(f2mul); reveal(f2one); reveal(f2neg); ax_q_pos();
    lemma_fneg_val(0); lemma_fneg_val(1); lemma_small_mod(0, Q() as nat);
    assert(0int * 0 == 0 && 1int * 1 == 1 && 0int * 1 == 0 && 1int * 0 == 0);
    lemma_small_mod(1, Q() as nat);
    lemma_mod_add_multiples_vanish(0 - 1, Q());
}}
pub proof fn lemma_f2mul_in(a: F2, b: F2) ensures f2in(f2mul(a, b))
{{ reveal(f2mul); ax_q_pos(); lemma_mod_bound(fmul(a.c0, b.c0) - fmul(a.c1, b.c1), Q()); lemma_mod_bound(fmul(a.c0, b.c1) + fmul(a.c1, b.c0), Q()); }}
pub proof fn lemma_f2pow_in(x: F2, e: int) ensures f2in(f2pow(x, e))
{{ reveal_with_fuel(f2pow, 2); if e <= 0 {{ reveal(f2one); ax_q_pos(); }} else {{ lemma_f2mul_in(f2pow(x, e - 1), x); }} }}
pub proof fn ax_f2pow_one(x: F2) requires f2in(x) ensures f2pow(x, 1) == x
{{ reveal_with_fuel(f2pow, 3); ax_f2mul_one(x); }}
pub proof fn ax_f2pow_mul(x: F2, a: int, b: int) requires a >= 0, b >= 0 ensures f2mul(f2pow(x, a), f2pow(x, b)) == f2pow(x, a + b) decreases b
{{
    reveal_with_fuel(f2pow, 2);
    if b == 0 {{ lemma_f2pow_in(x, a); ax_f2mul_one(f2pow(x, a)); }}
    else {{
        ax_f2pow_mul(x, a, b - 1);
        ax_f2mul_assoc(f2pow(x, a), f2pow(x, b - 1), x);
        assert(f2pow(x, a + b) == f2mul(f2pow(x, a + b - 1), x));
    }}
}}
// the bit-serial step of square-and-multiply
pub proof fn lemma_f2pow_step(x: F2, e: int, bit: bool) requires e >= 0
    ensures f2pow(x, 2 * e + (if bit {{ 1int }} else {{ 0int }})) == (if bit {{ f2mul(f2sq(f2pow(x, e)), x) }} else {{ f2sq(f2pow(x, e)) }})
{{
    reveal(f2sq); reveal_with_fuel(f2pow, 2);
    ax_f2pow_mul(x, e, e);
    if bit {{ assert(f2pow(x, 2 * e + 1) == f2mul(f2pow(x, 2 * e), x)); }}
}}
// (x y)(x y) == (x x)(y y)
pub proof fn lemma_sq_prod(x: F2, y: F2) ensures f2mul(f2mul(x, y), f2mul(x, y)) == f2mul(f2mul(x, x), f2mul(y, y))
{{
    ax_f2mul_assoc(x, y, f2mul(x, y)); ax_f2mul_assoc(y, x, y); ax_f2mul_comm(y, x); ax_f2mul_assoc(x, y, y); ax_f2mul_assoc(x, x, f2mul(y, y));
}}
// what Algorithm 9 returns in terms of alpha = a^((q-1)/2): x^2 == e(a) * a
pub open spec fn sqrt_e(a: F2) -> F2 {{
    let al = f2pow(a, {hex(QM1D2)}int);
    if al == f2neg(f2one()) {{ f2one() }} else {{ f2mul(f2sq(f2pow(f2add(al, f2one()), {hex(QM1D2)}int)), al) }}
}}""")
    from units.ffdep import ff_source
    from vx import driver
    import os
    ffs, ver = ff_source(os.path.join(driver.REPO, 'Cargo.lock'))
    uu = Unit('ffpow2', ffs)
    it_spec = dict(invariant=("        invariant {it}.t == exp, v0 == {it}.val(), {it}.n <= 64 * 6, res.v() == f2pow(self.v(), (v0 / pow2({it}.n as nat)) as int), found_one == (v0 / pow2({it}.n as nat) > 0),\n"
                              "            !found_one ==> res.v() == f2one()\n        ensures {it}.n == 0\n        decreases {it}.n"),
                   ghost_before="proof { lemma_limbs_bound({it}.t.limbs()); lemma_small_div({it}.val(), pow2({it}.n as nat)); reveal_with_fuel(f2pow, 2); } let ghost v0 = {it}.val();",
                   ghost_arm="proof { reveal(f2one); ax_q_pos(); reveal(f2sq); reveal_with_fuel(f2pow, 2); lemma_f2in(self); ax_f2mul_one(self.v()); assert(f2in(f2one())); ax_f2mul_one(f2one()); }", ghost_after="proof { assert(pow2(0) == 1); }")

    def pow_edit(b):
        b = weave.rewrite_for_iter(b, uu.rewrites, [it_spec])
        for k, v in uu.rewrites.items():
            u.rewrites[k] = u.rewrites.get(k, 0) + v
        return re.sub(r'Some\(i\) => \{', 'Some(i) => { proof { lemma_div_step(v0, (it1.n + 1) as nat); lemma_f2pow_step(self.v(), (v0 / pow2((it1.n + 1) as nat)) as int, i); }', b, count=1)
    pt = uu.real_fn('', 're:pub trait Field:', 'pow', "    ensures ret.v() == f2pow(self.v(), limbs_val(exp@) as int)", ret='ret', vis='pub', body_edit=pow_edit,
                    sig_edit=lambda sg: re.sub(r'<S:\s*AsRef<\[u64\]>>', '', sg).replace('exp: S', 'exp: [u64; 6]'))
    u.functions.append(f"ff-zeroize-{ver}|trait Field|pow@Fq2")
    u.add("impl Fq2 {\n" + pt + "}")
    u.add(u.real_const('fq', 'NEGATIVE_ONE'))
    u.add("impl Fq2 {")
    u.add(u.real_fn('fq2', 'impl Signum0 for Fq2', 'sgn0', "    ensures sgn_neg(ret) == sgn0_2(self.v())", vis='pub'))
    u.add(u.real_fn('', 're:^pub trait Signum0\\b', 'negate_if', "    ensures final(self).v() == (if sgn_neg(sgn) { f2neg(old(self).v()) } else { old(self).v() })", vis='pub', rename='negate_if'))
    u.add(u.real_fn('fq2', 'impl Ord for Fq2', 'cmp', "    ensures ret == f2cmp(self.v(), other.v())", vis='pub'))
    u.add(u.real_fn('fq2', 'impl SqrtField for Fq2', 'legendre', "    ensures ret == leg1(f2norm(self.v()))", vis='pub',
                    subst=(('::ff::LegendreSymbol', 'LegendreSymbol'),)))

    def sqrt_edit(body):
        # the two exponent literals: value facts by(compute) in front of each pow call
        out = body
        for m in reversed(list(re.finditer(r'\.pow\(\[([^\]]*)\]\)', body))):
            limbs = [int(x.strip().replace('_', ''), 16) for x in m.group(1).split(',')]
            val = sum(l << (64 * i) for i, l in enumerate(limbs))
            lit = ", ".join(hex(l) + "u64" for l in limbs)
            # find statement start
            i = body.rfind(';', 0, m.start())
            j = body.rfind('{', 0, m.start())
            st = max(i, j) + 1
            ghost = (f" proof {{ assert([{lit}]@ =~= seq![{lit}]); assert(limbs_val(seq![{lit}]) == {hex(val)}nat) by(compute); }} ")
            out = out[:st] + ghost + out[st:]
        return out
    def sqrt_proof(body):
        b = sqrt_edit(body)
        E1, E2 = hex(QM3D4) + 'int', hex(QM1D2) + 'int'
        # alpha = a1^2 a = a^((q-1)/2);  x0 = a1 a, x0^2 = alpha a
        b = b.replace('alpha.mul_assign(self);', f"""alpha.mul_assign(self); proof {{ let a = self.v(); lemma_f2in(self); reveal(f2sq);
            ax_f2pow_mul(a, {E1}, {E1}); ax_f2pow_one(a); ax_f2pow_mul(a, 2 * {E1}, 1); assert(2 * {E1} + 1 == {E2}) by(compute); assert(alpha.v() == f2pow(a, {E2})); }}
            let ghost al = alpha.v(); let ghost p1 = a1.v();""", 1)
        b = b.replace('a1.mul_assign(self);', f"""a1.mul_assign(self); let ghost x0 = a1.v();
            proof {{ let a = self.v(); reveal(f2sq); lemma_sq_prod(p1, a); ax_f2mul_assoc(f2mul(p1, p1), a, a); assert(f2mul(x0, x0) == f2mul(al, a)); }}""", 1)
        b = b.replace('a1.mul_assign(&Fq2 { c0: Fq::zero(), c1: Fq::one() });', """a1.mul_assign(&Fq2 { c0: Fq::zero(), c1: Fq::one() });
            proof { let a = self.v(); reveal(f2sq); lemma_f2in(self); let uu = f2(0, 1); lemma_sq_prod(x0, uu); ax_u_squared();
                    ax_f2mul_neg1(a); ax_f2mul_neg1(f2neg(a)); ax_f2mul_one(a);
                    assert(f2sq(a1.v()) == f2mul(f2mul(al, a), f2neg(f2one()))); }""", 1)
        b = b.replace('a1.mul_assign(&alpha);', """a1.mul_assign(&alpha);
            proof { let a = self.v(); reveal(f2sq); let bb = alpha.v(); lemma_sq_prod(x0, bb);
                    ax_f2mul_comm(f2mul(al, a), f2mul(bb, bb)); ax_f2mul_assoc(f2mul(bb, bb), al, a); }""", 1)
        b = b.replace('let neg1 = Fq2 { c0: NEGATIVE_ONE, c1: Fq::zero() };', """let neg1 = Fq2 { c0: NEGATIVE_ONE, c1: Fq::zero() };
            proof { reveal(f2neg); reveal(f2one); ax_neg_one_value(); ax_q_value(); lemma_fneg_val(0); lemma_fneg_val(1); assert(neg1.v() == f2neg(f2one())); }""", 1)
        return b
    u.add("}")
    u.add("""// the constant NEGATIVE_ONE is -1 (closed term, checked in unit consts)
#[verifier::external_body]
pub proof fn ax_neg_one_value() ensures NEGATIVE_ONE.v() == Q() - 1 {}""")
    u.add("impl Fq2 {")
    u.add(u.real_fn('fq2', 'impl SqrtField for Fq2', 'sqrt', """    ensures match ret {
        // None is only returned for non-zero input; Some(x): x^2 == e(a) * a with e(a) built from alpha = a^((q-1)/2) (A8' turns e(a) into 1)
        None => self.v() != f2zero(),
        Some(x) => (self.v() == f2zero() ==> x.v() == f2zero()) && (self.v() != f2zero() ==> f2sq(x.v()) == f2mul(sqrt_e(self.v()), self.v())),
    }""", vis='pub', body_edit=sqrt_proof))
    u.add("}")
    u.add("""impl vstd::std_specs::cmp::PartialOrdSpecImpl for Fq2 {
    open spec fn obeys_partial_cmp_spec() -> bool { true }
    open spec fn partial_cmp_spec(&self, other: &Fq2) -> Option<Ordering> { Some(f2cmp(self.v(), other.v())) }
}
impl PartialOrd for Fq2 {""")
    u.add(u.real_fn('fq2', 'impl PartialOrd for Fq2', 'partial_cmp', "    ensures ret == Some(f2cmp(self.v(), other.v()))"))
    u.add("}")
    u.close = "} // mod code\n"
    return u
