"""Unit `recover`: get_point_from_x (point decompression step) for G1 and G2: on the curve with the given x, and the
sort flag selects the lexicographically larger root (C04/C05/C18)."""
import re
from vx.unit import Unit, spec_text
from units.cofactor import env_text


def build(src, workdir):
    u = Unit('recover', src)
    env_text(u)
    u.add("use vstd::arithmetic::div_mod::*;")
    u.add(spec_text('bits.vrs'))
    u.add(spec_text('affine.vrs'))
    u.add(spec_text('order.vrs'))
    u.add("""impl Fq2 {
    // Fq2::sqrt: Some(y) => y^2 = a, None => a is not a square (Algorithm 9 of Adj / Rodriguez-Henriquez: A8', assumed)
    #[verifier::external_body]
    pub fn sqrt(&self) -> (ret: Option<Fq2>) ensures match ret { Some(y) => f2sq(y.v()) == self.v(), None => !is_square2(self.v()) } { unimplemented!() }
}
impl vstd::std_specs::cmp::PartialOrdSpecImpl for Fq2 {
    open spec fn obeys_partial_cmp_spec() -> bool { true }
    open spec fn partial_cmp_spec(&self, other: &Fq2) -> Option<Ordering> { Some(f2cmp(self.v(), other.v())) }
}
impl PartialOrd for Fq2 {
    // contract proved for the real body in unit `order`
    #[verifier::external_body]
    fn partial_cmp(&self, other: &Fq2) -> (r: Option<Ordering>) ensures r == Some(f2cmp(self.v(), other.v())) { unimplemented!() }
}
// (-y)^2 = y^2 in Fq and Fq2 (ring facts; Fq2's is the statement of a tower lemma)
pub proof fn lemma_neg_sq1(y: int) requires fin(y) ensures fmul(fneg(y), fneg(y)) == fmul(y, y)
{
    ax_q_pos(); lemma_fneg_val(y);
    if y != 0 {
        let q = Q();
        lemma_mul_mod_noop_general(q - y, q - y, q);
        assert((q - y) * (q - y) == y * y + q * (q - 2 * y)) by(nonlinear_arith);
        lemma_mod_multiples_vanish(q - 2 * y, y * y, q);
    }
}
#[verifier::external_body]
pub proof fn lemma_neg_sq2(y: F2) requires f2in(y) ensures f2sq(f2neg(y)) == f2sq(y) {}
pub proof fn lemma_f2_neg_neg(y: F2) requires f2in(y) ensures f2neg(f2neg(y)) == y, f2neg(y) == f2(fneg(y.c0), fneg(y.c1)), f2in(f2neg(y))
{
    reveal(f2neg);
    lemma_fneg_val(y.c0); lemma_fneg_val(y.c1);
    lemma_fneg_val(fneg(y.c0)); lemma_fneg_val(fneg(y.c1));
}
""")
    for g, aff, n, B in (('G1', 'G1Affine', '1', 'Fq'), ('G2', 'G2Affine', '2', 'Fq2')):
        bval = '4' if n == '1' else 'f2(4, 4)'
        neg, cmpf, sq, zero = ('fneg', 'cmp_int', (lambda a: f"fmul({a}, {a})"), '0') if n == '1' else ('f2neg', 'f2cmp', (lambda a: f"f2sq({a})"), 'f2zero()')
        issq = f"is_square{n}"
        rhs = (f"fadd(fmul(fmul(x.v(), x.v()), x.v()), 4)" if n == '1' else "f2add(f2mul(f2sq(x.v()), x.v()), f2(4, 4))")
        u.add(f"""impl {aff} {{
    #[verifier::external_body]
    pub fn get_coeff_b() -> (ret: {B}) ensures ret.v() == {bval} {{ unimplemented!() }}""")
        u.add(u.real_fn(g.lower(), f'impl {aff}', 'get_point_from_x', f"""    ensures match ret {{
            // no point with this x exists
            None => !{issq}({rhs}),
            // the point has this x, lies on the curve, and `greatest` selects the larger of y, -y (lexicographic order of C18)
            Some(p) => p.x.v() == x.v() && !p.infinity && a{n}_on_curve(p.a())
                && ({cmpf}(p.y.v(), {neg}(p.y.v())) != Ordering::Equal ==> (greatest == ({cmpf}(p.y.v(), {neg}(p.y.v())) == Ordering::Greater))),
        }}""", vis='pub',
                        ghost=[(aff + r' \{\s*x,', f"proof {{ {'ax_fq_range(y); lemma_neg_sq1(y.v()); lemma_fneg_val(y.v()); lemma_fneg_val(negy.v()); ax_fq_range(negy);' if n == '1' else 'lemma_f2in(&y); lemma_neg_sq2(y.v()); lemma_f2_neg_neg(y.v());'} }}", 'before')]))
        u.add("}")
    u.close = "} // mod code\n"
    return u
