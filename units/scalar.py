"""Unit `scalar`: double-and-add scalar multiplication (affine mul_bits / mul, projective mul_assign), cofactor
scaling, the subgroup membership predicate and its parts - C02 (plain paths) and C07 (predicate)."""
import re
from vx.unit import Unit, spec_text
from vx import weave
from units.cofactor import env_text

RORDER = 0x73eda753299d7d483339d80809a1d80553bda402fffe5bfeffffffff00000001
GROUPS = {'G1': dict(mod='g1', aff='G1Affine', B='Fq', bspec='fone'), 'G2': dict(mod='g2', aff='G2Affine', B='Fq2', bspec='f2')}


def build(src, workdir):
    u = Unit('scalar', src)
    env_text(u)
    u.add("use vstd::arithmetic::div_mod::*;")
    u.add(spec_text('bits.vrs'))
    u.add(spec_text('affine.vrs'))
    # scalar representation type: real struct; its limb view
    t = u.real_item('fr', 'struct', r'struct FrRepr\b', derive='Clone, Copy')
    u.add(re.sub(r'pub\((super|crate)\)', 'pub', t))
    u.add(f"""impl AsRefU64 for FrRepr {{ open spec fn limbs(&self) -> Seq<u64> {{ self.0@ }} }}
impl AsRefU64 for [u64; 2] {{ open spec fn limbs(&self) -> Seq<u64> {{ self@ }} }}
impl AsRefU64 for [u64; 4] {{ open spec fn limbs(&self) -> Seq<u64> {{ self@ }} }}
impl AsRefU64 for [u64; 8] {{ open spec fn limbs(&self) -> Seq<u64> {{ self@ }} }}
pub struct Fr {{ pub dummy: u8 }}
impl Fr {{
    // PrimeField::char(): the modulus of Fr (value checked as a closed term in unit `consts`)
    #[verifier::external_body]
    pub fn char() -> (ret: FrRepr) ensures limbs_val(ret.0@) == RORDER() {{ unimplemented!() }}
}}
""")
    loop_spec = dict(
        ghost_before="proof { lemma_limbs_bound({it}.t.limbs()); lemma_small_div({it}.val(), pow2({it}.n as nat)); assert(smul(1, self.pt()) == self.pt()); } let ghost v0 = {it}.val(); let ghost t0 = {it}.t;",
        invariant="    invariant {it}.t == t0, v0 == {it}.val(), res.pt() == smul((v0 / pow2({it}.n as nat)) as int, self.pt()), smul(1, self.pt()) == self.pt()\n    ensures {it}.n == 0\n    decreases {it}.n",
        ghost_arm="",
        ghost_after="proof { assert(pow2(0) == 1); }")
    for g, G in GROUPS.items():
        aff = G['aff']
        u.add(f"impl {aff} {{")
        ls = dict(loop_spec)
        ls['ghost_arm'] = "proof { lemma_div_step(v0, ({it}.n + 1) as nat); }"
        # the arm body runs after next(): n already decremented
        u.add(u.real_fn(G['mod'], f'impl {aff}', 'mul_bits',
                        "    requires bits.fresh()\n    ensures ret.pt() == smul(bits.val() as int, self.pt())", vis='pub',
                        subst=(('AsRef<[u64]>', 'AsRefU64'),),
                        body_edit=lambda b, ls=ls: weave.rewrite_for_iter(b, u.rewrites, [ls])))
        u.add(u.real_fn(G['mod'], f'impl CurveAffine for {aff}', 'mul',
                        "    ensures ret.pt() == smul(limbs_val(by.0@) as int, self.pt())", vis='pub',
                        body_edit=lambda b: b.replace('by.into()', 'by'),
                        sig_edit=lambda sg: re.sub(r'\bS\b', 'FrRepr', re.sub(r'<S: Into<.*?>>\s*\(', '(', sg, flags=re.S))))
        cof = u.slice_fn(G['mod'], f'impl {aff}', 'scale_by_cofactor')[1]
        limbs = [int(x, 16) for x in re.findall(r'0x[0-9a-fA-F_]+', cof)]
        cofv = sum(l << (64 * i) for i, l in enumerate(limbs))
        # the contract states the standard cofactor (h1 / h2 of BLS12-381), not whatever the code holds
        hstd = {'G1': 0x396c8c005555e1568c00aaab0000aaab,
                'G2': 0x5d543a95414e7f1091d50792876a202cd91de4547085abaa68a205b2e5a7ddfa628f1cb4d9e82ef21537e293a6691ae1616ec6e786f0c70cf1c38e31c7238e5}[g]
        u.add(u.real_fn(G['mod'], f'impl {aff}', 'scale_by_cofactor',
                        f"    ensures ret.pt() == smul({hex(hstd)}int, self.pt())", vis='pub',
                        ghost=[(r'self\.mul_bits\(cofactor\)', "proof { let sq = seq![" + ", ".join(f"{hex(l)}u64" for l in limbs) + "]; assert(cofactor.t.limbs() =~= sq); "
                                f"assert(limbs_val(seq![" + ", ".join(f"{hex(l)}u64" for l in limbs) + f"]) == {hex(cofv)}nat) by(compute); }}", 'before')]))
        one = 'fone()' if g == 'G1' else 'f2one()'
        bval = '4' if g == 'G1' else 'f2(4, 4)'
        mul, add = ('fmul', 'fadd') if g == 'G1' else ('f2mul', 'f2add')
        sq = (lambda a: f"fmul({a}, {a})") if g == 'G1' else (lambda a: f"f2sq({a})")
        u.add(f"""    // the curve coefficient b (value of the constant checked as a closed term in unit `consts`)
    #[verifier::external_body]
    pub fn get_coeff_b() -> (ret: {G['B']}) ensures ret.v() == {bval} {{ unimplemented!() }}
    pub open spec fn on_curve_spec(&self) -> bool {{ a{g[1]}_on_curve(self.a()) }}
    pub open spec fn in_subgroup_spec(&self) -> bool {{ a{g[1]}_in_subgroup(self.a()) }}""")
        u.add(u.real_fn(G['mod'], f'impl {aff}', 'is_on_curve', "    ensures ret == self.on_curve_spec()", vis='pub'))
        u.add(u.real_fn(G['mod'], f'impl {aff}', 'is_in_correct_subgroup_assuming_on_curve',
                        "    ensures ret == (smul(RORDER(), self.pt()) == gzero())", vis='pub'))
        u.add(u.real_fn('subgroup_check', f'impl SubgroupCheck for {aff}', 'in_subgroup', "    ensures ret == self.in_subgroup_spec()", vis='pub'))
        # multi-scalar multiplication entry point: composition (C10); the bucket method is a contract-less stub here
        u.add(f"""    pub uninterp spec fn pip_spec(points: Seq<{aff}>, scalars: Seq<&[u64; 4]>, window: int) -> GE;
    pub uninterp spec fn window_spec(n: int) -> int;
    #[verifier::external_body]
    pub fn sum_of_products_pippinger(points: &[{aff}], scalars: &[&[u64; 4]], window: usize) -> (ret: {g})
        ensures ret.pt() == Self::pip_spec(points@, scalars@, window as int) {{ unimplemented!() }}
    #[verifier::external_body]
    pub fn find_pippinger_window(num_components: usize) -> (ret: usize) ensures ret == Self::window_spec(num_components as int) {{ unimplemented!() }}""")
        u.add(u.real_fn(G['mod'], f'impl CurveAffine for {aff}', 'sum_of_products',
                        "    ensures ret.pt() == Self::pip_spec(points@, scalars@, Self::window_spec(if points@.len() < scalars@.len() { points@.len() as int } else { scalars@.len() as int }))",
                        vis='pub', subst=(('&[Self]', f'&[{aff}]'),)))
        u.add("}")
        # projective multiplication
        ls2 = dict(loop_spec)
        ls2['ghost_before'] = ls2['ghost_before'] + " let ghost p0 = self.pt();"
        ls2['invariant'] = ("    invariant {it}.t == t0, v0 == {it}.val(), self.pt() == p0, res.pt() == smul((v0 / pow2({it}.n as nat)) as int, p0), smul(1, p0) == p0, "
                            "!found_one ==> v0 / pow2({it}.n as nat) == 0\n    ensures {it}.n == 0\n    decreases {it}.n")
        ls2['ghost_arm'] = "proof { lemma_div_step(v0, ({it}.n + 1) as nat); }"
        u.add(f"impl {g} {{")
        u.add(u.real_fn(G['mod'], f'impl CurveProjective for {g}', 'mul_assign',
                        "    ensures final(self).pt() == smul(limbs_val(other.0@) as int, old(self).pt())", vis='pub',
                        sig_edit=lambda sg: re.sub(r'\bS\b', 'FrRepr', re.sub(r'<S: Into<.*?>>\s*\(', '(', sg, flags=re.S)),
                        body_edit=lambda b, ls2=ls2: weave.rewrite_for_iter(b.replace('other.into()', 'other'), u.rewrites, [ls2])))
        u.add("}")
    u.close = "} // mod code\n"
    return u
