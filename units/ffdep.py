"""Unit `ffdep`: the two functions of the ff-zeroize dependency that the crate's scalar multiplications and square roots rest on:
BitIterator (new / next) and, in unit mont, Field::pow.  The text is sliced on every run from the registry source of the version pinned by
/repo/Cargo.lock, so it is the code that runs."""
import os, re, glob
from vx.unit import Unit, spec_text
from vx import weave
from vx.rs import Source, AnchorLost


def ff_source(repo_lock):
    lock = open(repo_lock).read()
    m = re.search(r'name = "ff-zeroize"\s*\nversion = "([^"]+)"', lock)
    if not m:
        raise AnchorLost("ff-zeroize not found in Cargo.lock")
    cands = glob.glob(os.path.expanduser(f"~/.cargo/registry/src/*/ff-zeroize-{m.group(1)}/src/lib.rs"))
    if not cands:
        raise AnchorLost(f"registry source of ff-zeroize {m.group(1)} not found")
    return Source(open(cands[0]).read(), cands[0]), m.group(1)


def build(src, workdir):
    from vx import driver
    ffs, ver = ff_source(os.path.join(driver.REPO, 'Cargo.lock'))
    u = Unit('ffdep', ffs)
    u.add("use vstd::arithmetic::div_mod::*;\nuse vstd::arithmetic::mul::*;")
    u.add(spec_text('ffdep.vrs'))
    t = u.real_item('', 'struct', r'struct BitIterator\b')
    u.add(re.sub(r'\n(\s*)(t|n):', r'\n\1pub \2:', t))
    H = 're:impl<E: AsRef<\\[u64\\]>> BitIterator<E>'
    HI = 're:impl<E: AsRef<\\[u64\\]>> Iterator for BitIterator<E>'
    u.add("impl<E: AsRefU64> BitIterator<E> {")
    u.add("    pub open spec fn val(&self) -> nat { limbs_val(self.t.limbs()) }")
    u.add(u.real_fn('', H, 'new', "    requires 64 * t.limbs().len() <= usize::MAX\n    ensures r.t == t, r.n == 64 * r.t.limbs().len()", ret='r'))
    u.add(u.real_fn('', HI, 'next', """    requires old(self).n <= 64 * old(self).t.limbs().len()
    ensures
        old(self).n == 0 ==> r.is_none() && *final(self) == *old(self),
        old(self).n > 0 ==> final(self).n == old(self).n - 1 && final(self).t == old(self).t
            && r == Some((old(self).val() / pow2((old(self).n - 1) as nat)) % 2 == 1)""", ret='r', vis='pub',
                    body_edit=lambda b: b.replace('Some(', 'proof { lemma_bit_of_limbs(self.t.limbs(), part as int, bit as u64); assert(64 * part + bit == self.n); } Some(', 1)))
    u.add("}")
    return u
