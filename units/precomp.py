"""Unit `precomp`: table-driven scalar multiplication with the 256-entry table (C02; also the table the multi-scalar
variant of C10 uses): precomp_256 builds the subset-sum table, mul_precomp_256 returns [k]P for every 256-bit k."""
import re
from vx.unit import Unit, spec_text
from vx import weave
from units.cofactor import env_text

GROUPS = {'G1': dict(mod='g1', aff='G1Affine'), 'G2': dict(mod='g2', aff='G2Affine')}
CH = {0: 'w0 & 0xffff_ffff', 1: 'w0 >> 32', 2: 'w1 & 0xffff_ffff', 3: 'w1 >> 32', 4: 'w2 & 0xffff_ffff', 5: 'w2 >> 32', 6: 'w3 & 0xffff_ffff', 7: 'w3 >> 32'}


def byte_expr(stmts_text, arr='bits'):
    """the table-index expression as the code computes it: `byte = e0; byte |= e1; ...` -> ((e0 | e1) | ...), words renamed"""
    rhs = re.findall(r'byte\s*\|?=\s*(.*?);', stmts_text, re.S)
    if len(rhs) < 1:
        raise weave.AnchorLost("anchor lost: byte extraction statements")
    e = None
    for r in rhs:
        r = re.sub(r'\s+', ' ', r.strip())
        r = re.sub(arr + r'\[(\d)\]', r'w\1', r)
        r = re.sub(r'>> \(i \+ (\d+)\)', r'>> ((i + \1) as u64)', r)
        r = re.sub(r'>> i\)', r'>> (i as u64))', r)
        e = f"({r})" if e is None else f"({e} | ({r}))"
    return e


def build(src, workdir):
    u = Unit('precomp', src)
    env_text(u)
    u.add("use vstd::arithmetic::div_mod::*;")
    u.add(spec_text('bits.vrs'))
    t = u.real_item('fr', 'struct', r'struct FrRepr\b', derive='Clone, Copy')
    u.add(re.sub(r'pub\((super|crate)\)', 'pub', t))
    u.add(spec_text('precomp.vrs'))
    u.add(spec_text('precomp3.vrs'))
    for g, G in GROUPS.items():
        aff = G['aff']
        u.add(f"""impl {aff} {{
    #[verifier::external_body]
    pub fn into_projective(&self) -> (ret: {g}) ensures ret.pt() == self.pt() {{ unimplemented!() }}
}}""")

        def mul_edit(body):
            body = body.replace('other.into()', 'other')
            m0 = re.search(r'let mut byte = .*?(?=let mut res)', body, re.S)
            ml = re.search(r'byte = \(bits\[3\] >> \(i \+ 25\)\).*?(?=res\.add_assign_mixed)', body, re.S)
            if not m0 or not ml:
                raise weave.AnchorLost("anchor lost: byte extraction in mul_precomp_256")
            e0 = byte_expr(m0.group(0))
            el = byte_expr(ml.group(0))
            facts0 = " ".join(f"assert(bitu(byte, {k}) == bitu({CH[k]}, 31)) by(bit_vector) requires byte == {e0};" for k in range(8))
            top0 = " ".join(f"assert((({CH[k]}) >> 31) == bitu({CH[k]}, 31)) by(bit_vector);" for k in range(8))
            ghost0 = (f" proof {{ let w0 = bits[0]; let w1 = bits[1]; let w2 = bits[2]; let w3 = bits[3]; {facts0} {top0} "
                      f"assert(byte <= 255) by(bit_vector) requires byte == {e0}; assert(smul(1, self.pt()) == self.pt()); }} ")
            factsl = " ".join(f"assert(bitu(byte, {k}) == bitu({CH[k]}, i as u64)) by(bit_vector) requires byte == {el}, 0 <= i < 31;" for k in range(8))
            ghostl = (f" proof {{ let w0 = bits[0]; let w1 = bits[1]; let w2 = bits[2]; let w3 = bits[3]; {factsl} "
                      f"assert(byte <= 255) by(bit_vector) requires byte == {el}, 0 <= i < 31; lemma_acc_step(bits@, i as u64); }} ")
            body = body.replace('let mut res = pre[byte as usize]', ghost0 + 'let mut res = pre[byte as usize]', 1)
            body = weave.rewrite_rev_range(body, u.rewrites, [
                "    invariant 0 <= i <= 31, res.pt() == smul(acc(bits@, i as u64), self.pt()), is_table256(pre@, self.pt()), bits@.len() == 4"])
            body = body.replace('res.add_assign_mixed(&pre[byte as usize]);', ghostl + 'res.add_assign_mixed(&pre[byte as usize]);', 1)
            return body
        u.add(f"impl {aff} {{")
        u.add(u.real_fn(G['mod'], f'impl CurveAffine for {aff}', 'mul_precomp_256',
                        "    requires is_table256(pre@, self.pt())\n    ensures ret.pt() == smul(limbs_val(other.0@) as int, self.pt())", vis='pub',
                        sig_edit=lambda sg, aff=aff: re.sub(r'&\[Self\]', f'&[{aff}]', re.sub(r'\bS\b', 'FrRepr', re.sub(r'<S: Into<.*?>>\s*\(', '(', sg, flags=re.S))),
                        body_edit=mul_edit, tail=" proof { lemma_acc_zero(bits@); } "))
        u.add("}")
        # ---- the table builder
        inv_while = ("    invariant 0 <= m <= 8, piece_length == pl2(m) as usize, pre@.len() == old(pre)@.len(), pre@.len() >= 256, smul(1, self.pt()) == self.pt(),\n"
                     "        m <= 7 ==> power_of_2_times_self.pt() == smul(p32(m), self.pt()),\n"
                     "        forall|b: int| 0 <= b < piece_length ==> #[trigger] pre@[b].pt() == smul(sub_sum(b as u64), self.pt())\n"
                     "    decreases 9 - m")
        inv_for = ("        invariant 0 <= m <= 7, 1 <= i, piece_length == pl2(m) as usize, pre@.len() == old(pre)@.len(), pre@.len() >= 256, smul(1, self.pt()) == self.pt(),\n"
                   "            power_of_2_times_self.pt() == smul(p32(m), self.pt()), pre@[piece_length as int].pt() == smul(p32(m), self.pt()),\n"
                   "            forall|b: int| 0 <= b < piece_length ==> #[trigger] pre@[b].pt() == smul(sub_sum(b as u64), self.pt()),\n"
                   "            forall|b: int| piece_length <= b < piece_length + i && b < 2 * piece_length ==> #[trigger] pre@[b].pt() == smul(sub_sum(b as u64), self.pt())")
        u.add(f"impl {aff} {{")
        u.add(u.real_fn(G['mod'], f'impl CurveAffine for {aff}', 'precomp_256',
                        "    requires old(pre)@.len() >= 256\n    ensures is_table256(final(pre)@, self.pt()), final(pre)@.len() == old(pre)@.len()", vis='pub',
                        sig_edit=lambda sg, aff=aff: re.sub(r'&mut \[Self\]', f'&mut [{aff}]', sg),
                        subst=(('Self::zero()', f'{aff}::zero()'),),
                        ghost=[(r'let mut piece_length = 1;', " proof { lemma_sub_sum_zero(); assert(smul(1, self.pt()) == self.pt()); } let ghost mut m: int = 0; ", 'after'),
                               (r'pre\[piece_length\] =', " proof { lemma_sub_sum_step(m, 0); lemma_sub_sum_zero(); } ", 'before'),
                               (r'pre\[i \+ piece_length\] = pre\[i\];', " proof { lemma_sub_sum_step(m, i as u64); } ", 'before'),
                               (r'piece_length \*= 2;', " proof { m = m + 1; } ", 'after')],
                        body_edit=lambda b: precomp_loops(b, u, inv_while, inv_for)))
        u.add("}")
        precomp3(u, g, G)
    u.close = "} // mod code\n"
    return u


def nib_expr(stmts_text):
    """the 4-bit table index as the code computes it: `nibble = e0; nibble |= e1; ...` -> (((e0 | e1) | e2) | e3), words renamed"""
    rhs = re.findall(r'nibble\s*\|?=\s*(.*?);', stmts_text, re.S)
    if len(rhs) < 1:
        raise weave.AnchorLost("anchor lost: nibble extraction statements")
    e = None
    for r in rhs:
        r = re.sub(r'\s+', ' ', r.strip())
        r = re.sub(r'bits\[(\d)\]', r'w\1', r)
        r = re.sub(r'>> i\)', r'>> (i as u64))', r)
        e = f"({r})" if e is None else f"({e} | ({r}))"
    return e


def precomp3(u, g, G):
    """precomp_3 (three 64-fold doublings) and mul_precomp_3 (16-entry table of subset sums, four words in parallel)"""
    aff = G['aff']
    u.add(f"impl {aff} {{")

    def pre_edit(b):
        b = weave.name_for_binders(b, u.rewrites)
        b = weave.attach_loop_invariants(b, [
            "        invariant 0 <= i <= 3, pre@.len() == old(pre)@.len(), pre@.len() >= 3, smul(1, self.pt()) == self.pt(), p.pt() == smul(p64(i as int), self.pt()),\n"
            "            forall|j: int| 0 <= j < i ==> #[trigger] pre@[j].pt() == smul(p64(j + 1), self.pt())",
            "            invariant 0 <= i < 3, pre@.len() == old(pre)@.len(), pre@.len() >= 3, smul(1, self.pt()) == self.pt(), e_dbl == smul(p64(i as int), self.pt()), p.pt() == smul(pow2(_i1 as nat) as int, e_dbl),\n"
            "                forall|j: int| 0 <= j < i ==> #[trigger] pre@[j].pt() == smul(p64(j + 1), self.pt())"], u.rewrites)
        b = re.sub(r'for _i1 in 0\.\.', 'let ghost e_dbl = p.pt(); proof { assert(smul(1, e_dbl) == e_dbl); } for _i1 in 0..', b, count=1)
        b = re.sub(r'(\{ p\.double\(\); \})', r'\1 proof { lemma_p64_pow2(); ax_smul_mul(pow2(64) as int, p64(i as int), self.pt()); assert(p64(1) * p64(0) == p64(1)); }', b, count=1)
        return b.replace('{', '{ proof { assert(smul(1, self.pt()) == self.pt()); }', 1)
    u.add(u.real_fn(G['mod'], f'impl CurveAffine for {aff}', 'precomp_3',
                    "    requires old(pre)@.len() >= 3\n    ensures is_pre3(final(pre)@, self.pt()), final(pre)@.len() == old(pre)@.len()", vis='pub',
                    sig_edit=lambda sg: re.sub(r'&mut \[Self\]', f'&mut [{aff}]', sg), body_edit=pre_edit))

    def mul_edit(body):
        body = body.replace('other.into()', 'other')
        m0 = re.search(r'let mut nibble = .*?(?=let mut res)', body, re.S)
        ml = re.search(r'nibble = \(\(bits\[3\] >> i\).*?(?=res\.add_assign)', body, re.S)
        if not m0 or not ml:
            raise weave.AnchorLost("anchor lost: nibble extraction in mul_precomp_3")
        e0, el = nib_expr(m0.group(0)), nib_expr(ml.group(0))
        f0 = " ".join(f"assert(bitu(nibble, {k}) == bitu(w{k}, 63)) by(bit_vector) requires nibble == {e0};" for k in range(4))
        fl = " ".join(f"assert(bitu(nibble, {k}) == bitu(w{k}, i as u64)) by(bit_vector) requires nibble == {el}, 0 <= i < 63;" for k in range(4))
        ws = "let w0 = bits[0]; let w1 = bits[1]; let w2 = bits[2]; let w3 = bits[3];"
        body = body.replace('let mut res = precomp[nibble as usize];',
                            f" proof {{ {ws} {f0} assert(nibble <= 15) by(bit_vector) requires nibble == {e0}; lemma_acc4_top(bits@); }} let mut res = precomp[nibble as usize];", 1)
        body = weave.rewrite_rev_range(body, u.rewrites, [
            "    invariant 0 <= i <= 63, res.pt() == smul(acc4(bits@, i as u64), self.pt()), bits@.len() == 4, precomp@.len() == 16,\n"
            "        forall|b: int| 0 <= b < 16 ==> #[trigger] precomp@[b].pt() == smul(sub4(b as u64), self.pt())"])
        body = body.replace('res.add_assign(&precomp[nibble as usize]);',
                            f" proof {{ {ws} {fl} assert(nibble <= 15) by(bit_vector) requires nibble == {el}, 0 <= i < 63; lemma_acc4_step(bits@, i as u64); }} res.add_assign(&precomp[nibble as usize]);", 1)
        # the table: entries 0..8 written out, 9..15 by the loop
        body = weave.name_for_binders(body, u.rewrites)
        body = weave.attach_loop_invariants(body, [
            "        invariant 9 <= i <= 16, precomp@.len() == i, is_pre3(pre@, self.pt()), smul(1, self.pt()) == self.pt(),\n"
            "            forall|b: int| 0 <= b < i ==> #[trigger] precomp@[b].pt() == smul(sub4(b as u64), self.pt())", None], u.rewrites)
        body = body.replace('precomp[i].add_assign_mixed(&pre[2]);', 'proof { lemma_sub4_high(i as u64); } precomp[i].add_assign_mixed(&pre[2]);', 1)
        body = body.replace('for i in 9..16', 'proof { lemma_sub4_values(); } for i in 9..16', 1)
        return body.replace('{', '{ proof { assert(smul(1, self.pt()) == self.pt()); lemma_sub4_values(); }', 1)
    u.add(u.real_fn(G['mod'], f'impl CurveAffine for {aff}', 'mul_precomp_3',
                    "    requires is_pre3(pre@, self.pt())\n    ensures ret.pt() == smul(limbs_val(other.0@) as int, self.pt())", vis='pub',
                    sig_edit=lambda sg: re.sub(r'&\[Self\]', f'&[{aff}]', re.sub(r'\bS\b', 'FrRepr', re.sub(r'<S: Into<.*?>>\s*\(', '(', sg, flags=re.S))),
                    subst=(('Self::Projective::zero()', f'{g}::zero()'),),
                    body_edit=mul_edit, tail=" proof { lemma_acc4_zero(bits@); } "))
    u.add("}")


def precomp_loops(body, u, inv_while, inv_for):
    """attach invariants: the outer `while`, the inner `for i in 1..piece_length`, and the 32-fold doubling loop"""
    body = weave.name_for_binders(body, u.rewrites)
    dbl = ("        invariant 0 <= m < 7, piece_length == pl2(m) as usize, pre@.len() == old(pre)@.len(), pre@.len() >= 256, smul(1, self.pt()) == self.pt(), e_dbl == smul(p32(m), self.pt()),\n"
           "            power_of_2_times_self.pt() == smul(pow2(_i1 as nat) as int, e_dbl),\n"
           "            forall|b: int| 0 <= b < 2 * piece_length ==> #[trigger] pre@[b].pt() == smul(sub_sum(b as u64), self.pt())")
    body = weave.attach_loop_invariants(body, [inv_while, inv_for, dbl], u.rewrites)
    body = re.sub(r'for _i1 in 0\.\.', 'let ghost e_dbl = power_of_2_times_self.pt(); for _i1 in 0..', body, count=1)
    # after the doubling loop: pow2(32) * p32(m) == p32(m+1)
    body = re.sub(r'(\{ power_of_2_times_self\.double\(\); \})', r'\1 proof { assert(pow2(32) == 0x1_0000_0000) by(compute); ax_smul_mul(0x1_0000_0000int, p32(m), self.pt()); lemma_p32_step(m); }', body, count=1)
    return body
