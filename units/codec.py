"""Unit `codec`: point decoders (C04) - flag parsing, range validation, order of validations - real bodies of
into_affine_unchecked / into_affine for the four encodings."""
import re
from vx.unit import Unit, spec_text
from vx import weave
from vx.rs import Source
from units.cofactor import env_text


def rewrite_map_err_q(body, counts):
    """R5: `E.map_err(|e| F)?`  ->  `match E { Ok(v) => v, Err(e) => { return Err(F); } }`"""
    while True:
        src = Source(body)
        m = None
        for mm in re.finditer(r'\.map_err\(\|([A-Za-z_]\w*)\|', body):
            if src.mask[mm.start()]:
                m = mm
                break
        if not m:
            return body
        op = body.index('(', m.start())
        cl = src.match_close(op)
        if body[cl + 1:cl + 2] != '?':
            raise weave.Unsupported("map_err without ?")
        f = body[m.end():cl].strip()
        # receiver: back to the start of the expression (after ':' of a struct field, '=' or '(' or ',')
        i = m.start() - 1
        depth = 0
        while i >= 0:
            ch = body[i]
            if src.mask[i]:
                if ch in ')]':
                    depth += 1
                elif ch in '([':
                    if depth == 0:
                        break
                    depth -= 1
                elif depth == 0 and ch in ';{}=,:' and not (ch == ':' and body[i - 1:i + 1] == '::' or ch == ':' and body[i:i + 2] == '::'):
                    break
            i -= 1
        recv = body[i + 1:m.start()].strip()
        new = f" match {recv} {{ Ok(v_) => v_, Err({m.group(1)}) => {{ return Err({f}); }} }}"
        body = body[:i + 1] + new + body[cl + 2:]
        counts['R5e'] = counts.get('R5e', 0) + 1


def common_edit(u, N=None):
    def f(body):
        body = rewrite_map_err_q(body, u.rewrites)
        # ghost: sequence-extensionality facts after each 48-byte read
        k = [0]

        def after_read(m):
            i = k[0]
            k[0] += 1
            return (m.group(0) + f" proof {{ assert(copy@.subrange(0, {N}) =~= copy@); assert(reader@ =~= copy@.subrange({48 * (i + 1)}, {N})); "
                    f"assert(copy@.subrange({48 * i}, {N}).subrange(0, 48) =~= copy@.subrange({48 * i}, {48 * i + 48})); "
                    f"assert(limbs_val({m.group(1)}.0@) == fe(copy@, {i})); }}")
        body = re.sub(r'([A-Za-z_]\w*)\.read_be\(&mut reader\)\.unwrap\(\);', after_read, body)
        n = len(re.findall(r'copy\.iter\(\)\.all\(\|b\| \*b == 0\)', body))
        body = re.sub(r'copy\.iter\(\)\.all\(\|b\| \*b == 0\)', 'all_zero(&copy)', body)
        u.rewrites['R5a'] = u.rewrites.get('R5a', 0) + n
        return body.replace('{', '{ proof { assert((1u8 << 7) == 0x80u8) by(bit_vector); assert((1u8 << 6) == 0x40u8) by(bit_vector); assert((1u8 << 5) == 0x20u8) by(bit_vector); }', 1)
    return f


def build(src, workdir):
    u = Unit('codec', src)
    env_text(u)
    u.add(spec_text('bits.vrs'))
    u.add(u.real_item('', 'enum', r'enum GroupDecodingError\b'))
    for mod, nm in (('g1', 'G1Uncompressed'), ('g1', 'G1Compressed'), ('g2', 'G2Uncompressed'), ('g2', 'G2Compressed')):
        t = u.real_item(mod, 'struct', r'struct ' + nm + r'\b')
        u.add(t.replace('([u8;', '(pub [u8;'))
    u.add(spec_text('affine.vrs'))
    u.add(spec_text('codec.vrs'))
    for n, aff, B in (('1', 'G1Affine', 'Fq'), ('2', 'G2Affine', 'Fq2')):
        u.add(f"""impl {aff} {{
    // contracts of the functions the decoders call (proved for the real bodies in units scalar / sqrt)
    #[verifier::external_body]
    pub fn is_on_curve(&self) -> (ret: bool) ensures ret == a{n}_on_curve(self.a()) {{ unimplemented!() }}
    #[verifier::external_body]
    pub fn in_subgroup(&self) -> (ret: bool) ensures ret == a{n}_in_subgroup(self.a()) {{ unimplemented!() }}
    #[verifier::external_body]
    pub fn get_point_from_x(x: {B}, greatest: bool) -> (ret: Option<{aff}>)
        ensures match ret {{ Some(p) => gpfx{n}(x.v(), greatest) == Some(p.a()), None => gpfx{n}(x.v(), greatest).is_none() }}
    {{ unimplemented!() }}
}}""")
    for enc, mod, n, k, aff, N in (('G1Uncompressed', 'g1', '1', 'u', 'G1Affine', 96), ('G1Compressed', 'g1', '1', 'c', 'G1Affine', 48),
                                   ('G2Uncompressed', 'g2', '2', 'u', 'G2Affine', 192), ('G2Compressed', 'g2', '2', 'c', 'G2Affine', 96)):
        u.add(f"impl {enc} {{")
        u.add(u.real_fn(mod, f'impl EncodedPoint for {enc}', 'into_affine_unchecked',
                        f"    ensures rview{n}(ret) == dec_{k}{n}(self.0@)", vis='pub', body_edit=common_edit(u, N)))
        u.add(u.real_fn(mod, f'impl EncodedPoint for {enc}', 'into_affine',
                        f"    ensures rview{n}(ret) == chk_{k}{n}(dec_{k}{n}(self.0@))", vis='pub'))
        u.add("}")
    u.close = "} // mod code\n"
    return u
