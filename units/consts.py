"""Unit `consts`: closed-term checks of the crate's hand-written Montgomery-form constants against the values the
standards give (by(compute) on 384-bit integers).  The constant text is sliced from /repo on every run; the expected
values are written here from RFC 9380 section 8.8 / the BLS12-381 parameters, never read from the code."""
import re
from vx.unit import Unit, spec_text
from vx import weave

Q = 0x1a0111ea397fe69a4b1ba7b6434bacd764774b84f38512bf6730d2a0f6b0f6241eabfffeb153ffffb9feffffffffaaab
R = 0x73eda753299d7d483339d80809a1d80553bda402fffe5bfeffffffff00000001
RINV_Q = pow(1 << 384, -1, Q)
RINV_R = pow(1 << 256, -1, R)

# (module, const name, number of Fq components, expected values, owner note)
EXPECT = [
    ('fq', 'B_COEFF', [4], "curve coefficient b = 4"),
    ('fq', 'NEGATIVE_ONE', [Q - 1], "-1"),
    ('fq', 'G1_GENERATOR_X', [0x17f1d3a73197d7942695638c4fa9ac0fc3688c4f9774b905a14e3a3f171bac586c55e83ff97a1aeffb3af00adb22c6bb], "standard G1 generator x"),
    ('fq', 'G1_GENERATOR_Y', [0x08b3f481e3aaa0f1a09e30ed741d8ae4fcf5e095d5d00af600db18cb2c04b3edd03cc744a2888ae40caa232946c5e7e1], "standard G1 generator y"),
    ('fq', 'G2_GENERATOR_X_C0', [0x024aa2b2f08f0a91260805272dc51051c6e47ad4fa403b02b4510b647ae3d1770bac0326a805bbefd48056c8c121bdb8], "standard G2 generator x.c0"),
    ('fq', 'G2_GENERATOR_X_C1', [0x13e02b6052719f607dacd3a088274f65596bd0d09920b61ab5da61bbdc7f5049334cf11213945d57e5ac7d055d042b7e], "standard G2 generator x.c1"),
    ('fq', 'G2_GENERATOR_Y_C0', [0x0ce5d527727d6e118cc9cdc6da2e351aadfd9baa8cbdd3a76d429a695160d12c923ac9cc3baca289e193548608b82801], "standard G2 generator y.c0"),
    ('fq', 'G2_GENERATOR_Y_C1', [0x0606c4a02ea734cc32acd2b02bc28b99cb3e287e85a763af267492ab572e99ab3f370d275cec1da1aaa9075ff05f79be], "standard G2 generator y.c1"),
    ('fq', 'FROBENIUS_COEFF_FQ2_C1', [1, Q - 1], "(-1)^k"),
    ('g1', 'XI', [11], "SSWU Z = 11 (RFC 9380 8.8.1)"),
    ('g1', 'ELLP_A', [0x144698a3b8e9433d693a02c96d4982b0ea985383ee66a8d8e8981aefd881ac98936f8da0e0f97f5cf428082d584c1d], "E1' A (RFC 9380 8.8.1)"),
    ('g1', 'ELLP_B', [0x12e2908d11688030018b12e8753eee3b2016c1f0f24f4070a0b9c14fcef35ef55a23215a316ceaa5d1cc48e98e172be0], "E1' B (RFC 9380 8.8.1)"),
    ('g2', 'XI', [Q - 2, Q - 1], "SSWU Z = -(2 + I) (RFC 9380 8.8.2)"),
    ('g2', 'ELLP_A', [0, 240], "E2' A = 240 I"),
    ('g2', 'ELLP_B', [1012, 1012], "E2' B = 1012 (1 + I)"),
]


def limbs_of(text):
    body = text[text.index('='):]
    return [int(x.replace('u64', '').replace('_', ''), 0) for x in re.findall(r'0x[0-9a-fA-F_]+(?:u64)?|\b\d+u64', body)]


def build(src, workdir):
    u = Unit('consts', src)
    u.add(spec_text('bits.vrs').split('pub trait AsRefU64')[0])
    u.add(f"""pub open spec fn QV() -> int {{ {hex(Q)}int }}
pub open spec fn RV() -> int {{ {hex(R)}int }}
pub open spec fn RINVQ() -> int {{ {hex(RINV_Q)}int }}      // 2^-384 mod q
pub open spec fn RINVR() -> int {{ {hex(RINV_R)}int }}      // 2^-256 mod r
// the value of a Montgomery representative: repr * R^-1 mod q (the definition of Fq's view in the limb layer)
pub open spec fn fq_val(l: Seq<u64>) -> int {{ (limbs_val(l) * RINVQ()) % QV() }}
pub open spec fn fr_val(l: Seq<u64>) -> int {{ (limbs_val(l) * RINVR()) % RV() }}
pub proof fn rinv_is_inverse() ensures (RINVQ() * {hex(1 << 384)}int) % QV() == 1, (RINVR() * {hex(1 << 256)}int) % RV() == 1
{{ assert((RINVQ() * {hex(1 << 384)}int) % QV() == 1) by(compute); assert((RINVR() * {hex(1 << 256)}int) % RV() == 1) by(compute); }}
""")
    n = 0
    for mod, name, exp, note in EXPECT:
        text = u.real_const(mod, name)
        l = limbs_of(text)
        if len(l) != 6 * len(exp):
            raise weave.AnchorLost(f"constant {mod}::{name}: {len(l)} limbs, expected {6 * len(exp)}")
        for k, e in enumerate(exp):
            lit = ", ".join(hex(x) + "u64" for x in l[6 * k:6 * k + 6])
            u.add(f"// {mod}::{name}[{k}]: {note}\npub proof fn const_{mod}_{name}_{k}() ensures fq_val(seq![{lit}]) == {hex(e)}int {{ assert(fq_val(seq![{lit}]) == {hex(e)}int) by(compute); }}")
            n += 1
    # shift constants of from_okm (local consts inside the functions)
    for F, mod, modulus, half, valfn in (('Fq', 'fq', Q, 32, 'fq_val'), ('Fr', 'fr', R, 24, 'fr_val')):
        sig, body = u.slice_fn(mod, f'impl BaseFromRO for {F}', 'from_okm')
        cm = re.search(r'const (F_2_\d+): ' + F + r' =\s*' + F + r'\(' + F + r'Repr\(\[([^\]]*)\]\)\);', body)
        if not cm:
            raise weave.AnchorLost(f"anchor lost: shift constant in {F}::from_okm")
        l = [int(x.replace('u64', '').replace('_', ''), 16) for x in re.findall(r'0x[0-9a-fA-F_]+(?:u64)?', cm.group(2))]
        lit = ", ".join(hex(x) + "u64" for x in l)
        e = (1 << (8 * half)) % modulus
        u.add(f"// {F}::from_okm shift constant {cm.group(1)} = 2^{8 * half} mod modulus\npub proof fn const_{F.lower()}_shift() ensures {valfn}(seq![{lit}]) == {hex(e)}int {{ assert({valfn}(seq![{lit}]) == {hex(e)}int) by(compute); }}")
    # derived facts: the generator is on the curve; sqrt(-xi^3)
    text = u.real_const('g1', 'SQRT_M_XI_CUBED')
    l = limbs_of(text)
    lit = ", ".join(hex(x) + "u64" for x in l)
    u.add(f"""pub proof fn const_sqrt_m_xi_cubed() ensures (fq_val(seq![{lit}]) * fq_val(seq![{lit}])) % QV() == (QV() - 1331) % QV()
{{ assert((fq_val(seq![{lit}]) * fq_val(seq![{lit}])) % QV() == (QV() - 1331) % QV()) by(compute); }}
pub proof fn g1_generator_on_curve()
    ensures ({hex(EXPECT[3][2][0])}int * {hex(EXPECT[3][2][0])}int) % QV() == ({hex(EXPECT[2][2][0])}int * {hex(EXPECT[2][2][0])}int * {hex(EXPECT[2][2][0])}int + 4) % QV()
{{ assert(({hex(EXPECT[3][2][0])}int * {hex(EXPECT[3][2][0])}int) % QV() == ({hex(EXPECT[2][2][0])}int * {hex(EXPECT[2][2][0])}int * {hex(EXPECT[2][2][0])}int + 4) % QV()) by(compute); }}
""")
    # the G2 generator is on E2: y^2 = x^3 + 4(1 + u), written out on the coefficients
    gx0, gx1, gy0, gy1 = (hex([e for e in EXPECT if e[1] == nm][0][2][0]) + 'int' for nm in ('G2_GENERATOR_X_C0', 'G2_GENERATOR_X_C1', 'G2_GENERATOR_Y_C0', 'G2_GENERATOR_Y_C1'))
    u.add(f"""pub proof fn g2_generator_on_curve()
    ensures ({gy0} * {gy0} - {gy1} * {gy1}) % QV() == ({gx0} * {gx0} * {gx0} - 3 * {gx0} * {gx1} * {gx1} + 4) % QV(),
            (2 * {gy0} * {gy1}) % QV() == (3 * {gx0} * {gx0} * {gx1} - {gx1} * {gx1} * {gx1} + 4) % QV()
{{
    assert(({gy0} * {gy0} - {gy1} * {gy1}) % QV() == ({gx0} * {gx0} * {gx0} - 3 * {gx0} * {gx1} * {gx1} + 4) % QV()) by(compute);
    assert((2 * {gy0} * {gy1}) % QV() == (3 * {gx0} * {gx0} * {gx1} - {gx1} * {gx1} * {gx1} + 4) % QV()) by(compute);
}}""")
    # the G2 SSWU square-root tables: ROOTS_OF_UNITY squared are 1, -1, -u, u (so +-ROOTS are all eight 8th roots of unity);
    # ETAS squared are xi^3 times the four primitive 8th roots of unity (z^4 == -1, pairwise distinct)
    def fq2_table(name):
        t = src.text
        it = src.find_const('g2', name) if hasattr(src, 'find_const') else None
        l = limbs_of(it)
        if len(l) != 48:
            raise weave.AnchorLost(f"{name}: {len(l)} limbs, expected 48")
        return [(l[12 * k:12 * k + 6], l[12 * k + 6:12 * k + 12]) for k in range(4)]
    lit = lambda l: "fq_val(seq![" + ", ".join(hex(x) + "u64" for x in l) + "])"
    sq_expected = [(1, 0), (Q - 1, 0), (0, Q - 1), (0, 1)]
    for k, (c0, c1) in enumerate(fq2_table('ROOTS_OF_UNITY')):
        a, b = lit(c0), lit(c1)
        e0, e1 = sq_expected[k]
        u.add(f"pub proof fn const_root_of_unity_{k}_squared() ensures ({a} * {a} - {b} * {b}) % QV() == {hex(e0)}int, (2 * {a} * {b}) % QV() == {hex(e1)}int\n"
              f"{{ assert(({a} * {a} - {b} * {b}) % QV() == {hex(e0)}int) by(compute); assert((2 * {a} * {b}) % QV() == {hex(e1)}int) by(compute); }}")
    # xi = -(2 + u); xi^3 = -(2 + 11 u)  [(2+u)^3 = 8 + 12u + 6u^2 + u^3 = 2 + 11u]
    x0, x1 = (Q - 2) % Q, (Q - 11) % Q
    zs = []
    inv = pow((x0 * x0 + x1 * x1) % Q, -1, Q)
    for k, (c0, c1) in enumerate(fq2_table('ETAS')):
        v0 = sum(x << (64 * j) for j, x in enumerate(c0)) * RINV_Q % Q
        v1 = sum(x << (64 * j) for j, x in enumerate(c1)) * RINV_Q % Q
        s0, s1 = (v0 * v0 - v1 * v1) % Q, (2 * v0 * v1) % Q
        # z = eta^2 / xi^3 (computed here, checked by Verus through eta^2 == xi^3 * z and z^4 == -1)
        z0, z1 = (s0 * x0 + s1 * x1) * inv % Q, (s1 * x0 - s0 * x1) * inv % Q
        zs.append((z0, z1))
        a, b = lit(c0), lit(c1)
        zz0, zz1 = hex(z0) + 'int', hex(z1) + 'int'
        u.add(f"pub proof fn const_eta_{k}() ensures ({a} * {a} - {b} * {b}) % QV() == ({hex(x0)}int * {zz0} - {hex(x1)}int * {zz1}) % QV(), (2 * {a} * {b}) % QV() == ({hex(x0)}int * {zz1} + {hex(x1)}int * {zz0}) % QV(),\n"
              f"    (({zz0} * {zz0} - {zz1} * {zz1}) * ({zz0} * {zz0} - {zz1} * {zz1}) - (2 * {zz0} * {zz1}) * (2 * {zz0} * {zz1})) % QV() == QV() - 1, (2 * ({zz0} * {zz0} - {zz1} * {zz1}) * (2 * {zz0} * {zz1})) % QV() == 0\n"
              f"{{ assert(({a} * {a} - {b} * {b}) % QV() == ({hex(x0)}int * {zz0} - {hex(x1)}int * {zz1}) % QV()) by(compute); assert((2 * {a} * {b}) % QV() == ({hex(x0)}int * {zz1} + {hex(x1)}int * {zz0}) % QV()) by(compute);\n"
              f"  assert((({zz0} * {zz0} - {zz1} * {zz1}) * ({zz0} * {zz0} - {zz1} * {zz1}) - (2 * {zz0} * {zz1}) * (2 * {zz0} * {zz1})) % QV() == QV() - 1) by(compute); assert((2 * ({zz0} * {zz0} - {zz1} * {zz1}) * (2 * {zz0} * {zz1})) % QV() == 0) by(compute); }}")
    if len(set(zs)) != 4:
        raise weave.AnchorLost("ETAS: the four quotients eta^2 / xi^3 are not pairwise distinct")
    # the generators have order r: [r]G = O on the standard coordinates (which the proofs above tie to the crate's constants), computed with the independent
    # big-integer curve arithmetic of vx/refute.py - a closed-term fact established by the generator of this unit, not by Verus
    from vx.refute import F1, F2, ec_mul, on_curve
    g1 = ([e for e in EXPECT if e[1] == 'G1_GENERATOR_X'][0][2][0], [e for e in EXPECT if e[1] == 'G1_GENERATOR_Y'][0][2][0])
    gv = {nm: [e for e in EXPECT if e[1] == nm][0][2][0] for nm in ('G2_GENERATOR_X_C0', 'G2_GENERATOR_X_C1', 'G2_GENERATOR_Y_C0', 'G2_GENERATOR_Y_C1')}
    g2 = ((gv['G2_GENERATOR_X_C0'], gv['G2_GENERATOR_X_C1']), (gv['G2_GENERATOR_Y_C0'], gv['G2_GENERATOR_Y_C1']))
    if not (on_curve(F1, g1) and ec_mul(F1, R, g1) is None and ec_mul(F1, 1, g1) is not None):
        raise weave.AnchorLost("G1 generator: not a point of order r")
    if not (on_curve(F2, g2) and ec_mul(F2, R, g2) is None):
        raise weave.AnchorLost("G2 generator: not a point of order r")
    u.generator_facts = ["[r]G1 = O and [r]G2 = O for the standard generator coordinates (exact big-integer curve arithmetic in the unit's generator)"]
    # moduli of the two fields (raw limbs)
    for F, mod, mval in (('Fq', 'fq', Q), ('Fr', 'fr', R)):
        l = limbs_of(u.real_const(mod, 'MODULUS'))
        lit = ", ".join(hex(x) + "u64" for x in l)
        u.add(f"pub proof fn const_{mod}_modulus() ensures limbs_val(seq![{lit}]) == {hex(mval)}nat {{ assert(limbs_val(seq![{lit}]) == {hex(mval)}nat) by(compute); }}")
        l = limbs_of(u.real_const(mod, 'R'))
        lit = ", ".join(hex(x) + "u64" for x in l)
        vf = 'fq_val' if F == 'Fq' else 'fr_val'
        u.add(f"pub proof fn const_{mod}_one() ensures {vf}(seq![{lit}]) == 1 {{ assert({vf}(seq![{lit}]) == 1) by(compute); }}")
    # multiplicative generator, two-adicity and 2^S-th root of unity of both fields (derive output of #[PrimeFieldGenerator]; ROOT_OF_UNITY drives Fr::sqrt).
    # Expected values are computed here from the moduli: g = 2 resp. 7 (the standard choices), S = v2(m - 1), root = g^((m-1)/2^S); the root has exact order 2^S.
    for F, mod, mval, g, vf, nl in (('Fq', 'fq', Q, 2, 'fq_val', 6), ('Fr', 'fr', R, 7, 'fr_val', 4)):
        s = ((mval - 1) & -(mval - 1)).bit_length() - 1
        tt = (mval - 1) >> s
        root = pow(g, tt, mval)
        if tt % 2 != 1 or pow(root, 1 << (s - 1), mval) != mval - 1 or pow(g, (mval - 1) // 2, mval) != mval - 1:
            raise weave.AnchorLost(f"{F}: reference values of the generator / root of unity are inconsistent")
        sc = u.real_const(mod, 'S')
        ms = re.search(r'=\s*(\d+)(?:u32)?\s*;', sc)
        if not ms:
            raise weave.AnchorLost(f"constant {mod}::S not recognised")
        u.add(f"// {mod}::S: 2^S * t = modulus - 1 with t odd\npub proof fn const_{mod}_two_adicity() ensures {int(ms.group(1))}int == {s}int {{ }}")
        for name, e, note in (('GENERATOR', g, f"multiplicative generator {g} (a non-residue)"), ('ROOT_OF_UNITY', root, "GENERATOR^t, of exact order 2^S")):
            l = limbs_of(u.real_const(mod, name))
            if len(l) != nl:
                raise weave.AnchorLost(f"constant {mod}::{name}: {len(l)} limbs")
            lit = ", ".join(hex(x) + "u64" for x in l)
            u.add(f"// {mod}::{name}: {note}\npub proof fn const_{mod}_{name}() ensures {vf}(seq![{lit}]) == {hex(e)}int {{ assert({vf}(seq![{lit}]) == {hex(e)}int) by(compute); }}")
    return u
