"""Unit `serout`: the writing side of SerDes (C19) for Fr, Fq12, G1, G2, G1Affine, G2Affine, the reading side for Fr and Fq12,
and the round-trip lemmas against the reading side of unit serdes / the decoders of unit codec."""
import re
from vx.unit import Unit, spec_text
from vx import weave
from units.cofactor import env_text


def cut(text, tag):
    a, b = text.index(f'// <{tag}>'), text.index(f'// </{tag}>')
    return text[:a] + text[b:]


def build(src, workdir):
    u = Unit('serout', src)
    env_text(u)
    u.add("use vstd::arithmetic::div_mod::*;")
    u.add(spec_text('bits.vrs'))
    u.add(spec_text('affine.vrs'))
    u.add(spec_text('order.vrs'))
    u.add(u.real_item('', 'enum', r'enum GroupDecodingError\b'))
    for mod, nm in (('g1', 'G1Uncompressed'), ('g1', 'G1Compressed'), ('g2', 'G2Uncompressed'), ('g2', 'G2Compressed')):
        t = u.real_item(mod, 'struct', r'struct ' + nm + r'\b')
        u.add(t.replace('([u8;', '(pub [u8;'))
    u.add(cut(spec_text('codec.vrs'), 'slice-reader'))
    u.add("""impl vstd::std_specs::cmp::PartialOrdSpecImpl for Fq2 {
    open spec fn obeys_partial_cmp_spec() -> bool { true }
    open spec fn partial_cmp_spec(&self, other: &Fq2) -> Option<Ordering> { Some(f2cmp(self.v(), other.v())) }
}
impl PartialOrd for Fq2 {
    #[verifier::external_body]
    fn partial_cmp(&self, other: &Fq2) -> (r: Option<Ordering>) ensures r == Some(f2cmp(self.v(), other.v())) { unimplemented!() }
}""")
    u.add(cut(spec_text('encode.vrs'), 'cursor-writer'))
    for name in ('FrRepr', 'Fr'):
        t = u.real_item('fr', 'struct', r'struct ' + name + r'\b', derive='Clone, Copy')
        t = re.sub(r'pub\((super|crate)\)', 'pub', t)
        t = re.sub(r'struct Fr\(FrRepr\)', r'struct Fr(pub FrRepr)', t)
        u.add(t)
    u.add(spec_text('fr_stub.vrs'))
    u.add(spec_text('serdes.vrs'))
    u.add(spec_text('serout.vrs'))
    for g, mod, n, aff in (('G1', 'g1', '1', 'G1Affine'), ('G2', 'g2', '2', 'G2Affine')):
        for enc, k in ((f'{g}Compressed', 'c'), (f'{g}Uncompressed', 'u')):
            u.add(f"""impl {enc} {{
    // the encoder: contract proved for the real body in unit `encode`
    #[verifier::external_body]
    pub fn from_affine(affine: {aff}) -> (ret: {enc}) ensures ret.0@ == enc_{k}{n}(affine.a()) {{ unimplemented!() }}
}}""")

    def common(body):
        n = len(re.findall(r'\.as_ref\(\)\.to_vec\(\)', body))
        body = re.sub(r'\b(\w+)\.as_ref\(\)\.to_vec\(\)', r'bytes_to_vec(&\1.0)', body)
        u.rewrites['R5t'] = u.rewrites.get('R5t', 0) + n
        body = body.replace('bls12_381::', '')
        body = body.replace('::alloc::vec::Vec::new()', 'Vec::new()')
        return body

    def emit(ty, fn, contract, edit=None, tail=None):
        t = u.real_fn('serdes', f'impl SerDes for {ty}', fn, contract, body_edit=lambda b: (edit or (lambda x: x))(common(b)), subst=(('Result<', 'IoResult<'),), vis='pub', tail=tail)
        u.add(f"impl {ty} {{\n" + t.replace('IoResult<Self>', f'IoResult<{ty}>') + "}")

    # ---- points
    for g, n, aff in (('G1', '1', 'G1Affine'), ('G2', '2', 'G2Affine')):
        af = "aff1(a.x, a.y, a.inf)" if n == '1' else "aff2(a.x.c0, a.x.c1, a.y.c0, a.y.c1, a.inf)"
        emit(aff, 'serialize', f"    ensures ret.is_ok() ==> final(writer).written() == old(writer).written() + ser{n}(self.a(), compressed)")
        rng = "ax_fq_range(t.x); ax_fq_range(t.y);" if n == '1' else "lemma_f2in(&t.x); lemma_f2in(&t.y);"
        emit(g, 'serialize', f"    ensures ret.is_ok() ==> ser_pt{n}(self.pt(), old(writer).written(), final(writer).written(), compressed)",
             edit=lambda b: b.replace('Ok(())', f"""proof {{ let a = t.a(); let w0 = old(writer).written(); let w1 = writer.written(); {rng}
                    assert(w1.subrange(w0.len() as int, w1.len() as int) =~= ser{n}(a, compressed)); assert(w1.subrange(0, w0.len() as int) =~= w0); }} Ok(())""", 1))
    # ---- scalars
    u.add("pub open spec fn s0r<R: Read>(r: &R) -> Seq<u8> { r.stream() }")
    emit('Fr', 'serialize', "    ensures ret.is_ok() ==> final(writer).written() == old(writer).written() + be_bytes(self.v() as nat, 32)")
    emit('Fr', 'deserialize', """    ensures
        ret.is_ok() ==> s0r(old(reader)).len() >= 32 && final(reader).stream() == s0r(old(reader)).subrange(32, s0r(old(reader)).len() as int)
            && ret.unwrap().v() == be_val(s0r(old(reader)).subrange(0, 32)) && be_val(s0r(old(reader)).subrange(0, 32)) < RQV(),
        (s0r(old(reader)).len() < 32 || be_val(s0r(old(reader)).subrange(0, 32)) >= RQV()) ==> ret.is_err()""")
    # ---- target group
    emit('Fq12', 'serialize', "    ensures ret.is_ok() ==> final(writer).written() == old(writer).written() + ser_fq12(self.v())")
    def fq12_de(body):
        # R15: `&mut reader` with reader: &mut R is the reborrow that std's `impl Read for &mut R` forwards to
        n = body.count('q.read_be(&mut reader)')
        if n != 12:
            raise weave.AnchorLost(f"Fq12::deserialize: expected 12 reads, found {n}")
        u.rewrites['R15'] = u.rewrites.get('R15', 0) + n
        k = [0]

        def rd(m):
            i = k[0]
            k[0] += 1
            return (f"let ghost sp{i} = reader.stream(); q.read_be(&mut *reader)?; proof {{ assert(reader.stream() =~= s0.subrange({48 * (i + 1)}, s0.len() as int)); "
                    f"assert(sp{i}.subrange(0, 48) =~= s0.subrange({48 * i}, {48 * i + 48})); assert(limbs_val(q.0@) == fe(s0, {i})); }}")
        body = re.sub(r'q\.read_be\(&mut reader\)\?;', rd, body)
        return body.replace('{', '{ let ghost s0 = reader.stream(); proof { ax_q_value(); assert(s0.subrange(0, s0.len() as int) =~= s0); }', 1)
    emit('Fq12', 'deserialize', """    ensures
        ret.is_ok() ==> s0r(old(reader)).len() >= 576 && final(reader).stream() == s0r(old(reader)).subrange(576, s0r(old(reader)).len() as int)
            && all_reduced12(s0r(old(reader))) && ret.unwrap().v() == fq12_of(s0r(old(reader))),
        (s0r(old(reader)).len() < 576 || !all_reduced12(s0r(old(reader)))) ==> ret.is_err()""", edit=fq12_de)
    u.close = "} // mod code\n"
    return u
